package main

import (
	"flag"
	"fmt"
	"os"
	"regexp"
	"time"

	"govc/vc"
)

func main() {
	// type-check without materialised alias nodes so that a struct has one name
	os.Setenv("GODEBUG", "gotypesalias=0")
	if len(os.Args) < 2 {
		fmt.Fprintln(os.Stderr, "usage: govc <verify|check|dump> ...")
		os.Exit(2)
	}
	switch os.Args[1] {
	case "verify":
		verify(os.Args[2:])
	case "check":
		os.Exit(check(os.Args[2:]))
	case "loops":
		loops(os.Args[2:])
	case "scan":
		scan(os.Args[2:])
	case "replay":
		os.Exit(replay(os.Args[2:]))
	default:
		fmt.Fprintln(os.Stderr, "unknown command")
		os.Exit(2)
	}
}

// verify: developer command — generate and discharge the obligations of the
// functions matching a pattern and print one line per obligation.
func verify(args []string) {
	fs := flag.NewFlagSet("verify", flag.ExitOnError)
	repo := fs.String("repo", "/repo", "repository root")
	pat := fs.String("func", ".", "regexp on function names")
	dump := fs.String("dump", "", "directory to keep queries in")
	timeout := fs.Duration("timeout", 10*time.Second, "per-obligation timeout")
	verbose := fs.Bool("v", false, "print solver output of failed obligations")
	fs.Parse(args)
	g, err := vc.Load(*repo, []string{"/verif/ext", "/verif/specs"})
	if err != nil {
		fmt.Fprintln(os.Stderr, "load:", err)
		os.Exit(2)
	}
	re := regexp.MustCompile(*pat)
	dir := *dump
	if dir == "" {
		dir, _ = os.MkdirTemp("", "govc")
		defer os.RemoveAll(dir)
	} else {
		os.MkdirAll(dir, 0o755)
	}
	run := vc.NewRun(g, dir, *timeout, 0)
	for _, con := range g.CS.Order {
		if con.Trusted && con.PkgPath == "" {
			continue
		}
		name := con.Func
		if !re.MatchString(name) {
			continue
		}
		fr := run.VerifyContract(con)
		vc.PrintFuncReport(os.Stdout, fr, *verbose)
	}
}

func check(args []string) int {
	fs := flag.NewFlagSet("check", flag.ExitOnError)
	repo := fs.String("repo", "/repo", "repository root")
	verif := fs.String("verif", "/verif", "verif directory")
	prop := fs.String("prop", "", "property id")
	tier := fs.String("tier", "quick", "quick|thorough")
	timeout := fs.Duration("timeout", 0, "per-obligation timeout")
	fs.Parse(args)
	seed := 0
	if s := os.Getenv("VERIF_SEED"); s != "" {
		fmt.Sscan(s, &seed)
	}
	to := *timeout
	if to == 0 {
		to = 20 * time.Second
		if *tier == "thorough" {
			// thorough: every obligation is decided on its own (no batch query), with three times the budget, and
			// the vacuity covers get the long budget too
			to = 60 * time.Second
			os.Setenv("GOVC_NOBATCH", "1")
			os.Setenv("GOVC_LONGCOVER", "1")
		}
	}
	return vc.RunCheck(vc.CheckConfig{Property: *prop, Tier: *tier, Seed: seed, Repo: *repo, VerifDir: *verif, Timeout: to, Out: os.Stdout})
}

// loops: list the loop ordinals of a function (for writing "loop k invariant" clauses)
func loops(args []string) {
	fs := flag.NewFlagSet("loops", flag.ExitOnError)
	repo := fs.String("repo", "/repo", "repository root")
	pkg := fs.String("pkg", "github.com/goplus/gogen", "package path")
	fn := fs.String("func", "", "function name")
	fs.Parse(args)
	g, err := vc.Load(*repo, []string{"/verif/ext", "/verif/specs"})
	if err != nil {
		fmt.Fprintln(os.Stderr, "load:", err)
		os.Exit(2)
	}
	for _, l := range g.Loops(*pkg, *fn) {
		fmt.Println(l)
	}
}

// scan: list the determinism sites (C15) and the writes to package-level state (C18) of the module
func scan(args []string) {
	fs := flag.NewFlagSet("scan", flag.ExitOnError)
	repo := fs.String("repo", "/repo", "repository root")
	fs.Parse(args)
	g, err := vc.Load(*repo, []string{"/verif/ext", "/verif/specs"})
	if err != nil {
		fmt.Fprintln(os.Stderr, "load:", err)
		os.Exit(2)
	}
	fmt.Println(g.ModulePackagePaths())
	for _, s := range g.ScanDet() {
		fmt.Printf("%-70s %s %s\n", s.ID(), s.Pos, s.Note)
	}
	fmt.Println(g.SharedNodeTypeNames())
	for _, s := range g.ScanNodeStores() {
		fmt.Printf("%-70s %s %s\n", s.ID(), s.Pos, s.Note)
	}
	for _, s := range g.ScanGlobalWrites() {
		fmt.Printf("%-70s %s %s\n", s.ID(), s.Pos, s.Note)
	}
}

// replay: re-decide the obligation named in a replay file on the current tree
func replay(args []string) int {
	fs := flag.NewFlagSet("replay", flag.ExitOnError)
	repo := fs.String("repo", "/repo", "repository root")
	verif := fs.String("verif", "/verif", "verif directory")
	prop := fs.String("prop", "", "property id")
	file := fs.String("file", "", "replay file written with a VIOLATION line")
	fs.Parse(args)
	if r := os.Getenv("VERIF_REPO"); r != "" {
		*repo = r
	}
	os.Setenv("GOVC_NOEVIDENCE", "1")
	return vc.RunReplay(vc.CheckConfig{Property: *prop, Tier: "quick", Repo: *repo, VerifDir: *verif, Timeout: 20 * time.Second, Out: os.Stdout}, *file)
}
