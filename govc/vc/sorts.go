package vc

import (
	"fmt"
	"go/types"
	"hash/fnv"
	"strings"
)

const prelude = `(declare-datatypes ((Ref 0)) (((R (rid Int)) (Sub (sbase Ref) (sfld Int)) (BoxI (unboxI Int)) (BoxS (unboxS String)) (BoxB (unboxB Bool)) (BoxX (unboxX Int)) (Elt (earr Ref) (eidx Int)))))
(declare-datatypes ((Iface 0)) (((mkI (itag Int) (iref Ref)))))
(declare-datatypes ((Slice 0)) (((mkS (sarr Ref) (soff Int) (slen Int) (scap Int)))))
(define-fun nilR () Ref (R 0))
(define-fun nilI () Iface (mkI 0 (R 0)))
(define-fun nilS () Slice (mkS (R 0) 0 0 0))
(declare-fun age (Ref) Int)
(define-fun root1 ((r Ref)) Ref (ite ((_ is Sub) r) (sbase r) r))
(define-fun root ((r Ref)) Ref (root1 (root1 (root1 r))))
(define-fun ageR ((r Ref)) Int (age (root r)))
(declare-fun int_and (Int Int) Int)
(declare-fun int_or (Int Int) Int)
(declare-fun int_xor (Int Int) Int)
(declare-fun int_shl (Int Int) Int)
(declare-fun int_shr (Int Int) Int)
(declare-fun str_lt (String String) Bool)
(assert (forall ((x Int)) (! (= (int_and 0 x) 0) :pattern ((int_and 0 x)))))
(assert (forall ((x Int)) (! (= (int_and x 0) 0) :pattern ((int_and x 0)))))
(declare-fun at (Int Int) Int)
(assert (forall ((o Int) (i Int)) (! (= (at o i) (+ o i)) :pattern ((at o i)))))
`

var preludeSyms = []string{"Ref", "R", "rid", "Sub", "sbase", "sfld", "BoxI", "unboxI", "BoxS", "unboxS", "BoxB", "unboxB", "BoxX", "unboxX", "Elt", "earr", "eidx",
	"Iface", "mkI", "itag", "iref", "Slice", "mkS", "sarr", "soff", "slen", "scap", "nilR", "nilI", "nilS", "age", "root1", "root", "ageR",
	"int_and", "int_or", "int_xor", "int_shl", "int_shr", "str_lt", "at"}

// typeKey renders a type with short package names.
func typeKey(t types.Type) string {
	return types.TypeString(t, func(p *types.Package) string { return p.Name() })
}

func hashStr(s string) string {
	h := fnv.New32a()
	h.Write([]byte(s))
	return fmt.Sprintf("%08x", h.Sum32())
}

// sorter maps Go types to SMT sorts and keeps struct datatypes declared.
type sorter struct {
	sc      *Script
	structs map[string]*structInfo // by key
	tags    map[string]int
	tagList []types.Type
	fids    map[string]int
	err     func(string)
}

type structInfo struct {
	key    string
	st     *types.Struct
	named  types.Type
	sort   string
	ctor   string
	fields []string // selector names
}

func newSorter(sc *Script) *sorter {
	return &sorter{sc: sc, structs: map[string]*structInfo{}, tags: map[string]int{}, fids: map[string]int{}}
}

type unsupported struct{ msg string }

func (u unsupported) Error() string { return u.msg }

func bail(format string, args ...any) {
	panic(unsupported{fmt.Sprintf(format, args...)})
}

func isStruct(t types.Type) bool {
	_, ok := t.Underlying().(*types.Struct)
	return ok
}

// sortOf returns the SMT sort of values of Go type t.
func (s *sorter) sortOf(t types.Type) string {
	switch u := t.Underlying().(type) {
	case *types.Basic:
		switch {
		case u.Info()&types.IsBoolean != 0:
			return "Bool"
		case u.Info()&types.IsInteger != 0:
			return "Int"
		case u.Info()&types.IsFloat != 0:
			return "Real"
		case u.Info()&types.IsString != 0:
			return "String"
		case u.Kind() == types.UnsafePointer:
			return "Ref"
		case u.Kind() == types.UntypedNil:
			return "Ref"
		case u.Info()&types.IsComplex != 0:
			return "Int" // opaque
		}
	case *types.Pointer, *types.Map, *types.Chan, *types.Signature:
		return "Ref"
	case *types.Interface:
		return "Iface"
	case *types.Slice:
		return "Slice"
	case *types.Array:
		return "(Array Int " + s.sortOf(u.Elem()) + ")"
	case *types.Struct:
		return s.structOf(t).sort
	case *types.Tuple:
		if u.Len() == 0 {
			return "Bool"
		}
	}
	bail("unsupported type %s", typeKey(t))
	return ""
}

func (s *sorter) structOf(t types.Type) *structInfo {
	st := t.Underlying().(*types.Struct)
	key := typeKey(t)
	if _, ok := t.(*types.Named); !ok {
		if _, ok := t.(*types.Alias); !ok {
			key = "struct#" + hashStr(key)
		}
	}
	if si := s.structs[key]; si != nil {
		return si
	}
	si := &structInfo{key: key, st: st, named: t}
	si.sort = Sym("S!" + key)
	si.ctor = Sym("mk!" + key)
	s.structs[key] = si
	var fl []string
	for i := 0; i < st.NumFields(); i++ {
		f := st.Field(i)
		sel := Sym(key + "!" + f.Name())
		si.fields = append(si.fields, sel)
		fl = append(fl, fmt.Sprintf("(%s %s)", sel, s.sortOf(f.Type())))
	}
	if len(fl) == 0 {
		s.sc.SortItem(fmt.Sprintf("(declare-datatypes ((%s 0)) (((%s))))", si.sort, si.ctor), append([]string{si.sort, si.ctor}, si.fields...))
	} else {
		s.sc.SortItem(fmt.Sprintf("(declare-datatypes ((%s 0)) (((%s %s))))", si.sort, si.ctor, strings.Join(fl, " ")), append([]string{si.sort, si.ctor}, si.fields...))
	}
	return si
}

// zero returns the zero value term of Go type t.
func (s *sorter) zero(t types.Type) string {
	switch u := t.Underlying().(type) {
	case *types.Basic:
		switch s.sortOf(t) {
		case "Bool":
			return "false"
		case "Int":
			return "0"
		case "Real":
			return "0.0"
		case "String":
			return `""`
		case "Ref":
			return "nilR"
		}
	case *types.Pointer, *types.Map, *types.Chan, *types.Signature:
		return "nilR"
	case *types.Interface:
		return "nilI"
	case *types.Slice:
		return "nilS"
	case *types.Array:
		// the element of a constant array must be a value literal for cvc5 and z3 4.8 (not a defined constant)
		z := strings.NewReplacer("nilR", "(R 0)", "nilI", "(mkI 0 (R 0))", "nilS", "(mkS (R 0) 0 0 0)").Replace(s.zero(u.Elem()))
		return fmt.Sprintf("((as const %s) %s)", s.sortOf(t), z)
	case *types.Struct:
		si := s.structOf(t)
		var args []string
		for i := 0; i < u.NumFields(); i++ {
			args = append(args, s.zero(u.Field(i).Type()))
		}
		return App(si.ctor, args...)
	}
	bail("zero: unsupported type %s", typeKey(t))
	return ""
}

// tagOf returns the integer tag of a dynamic (concrete) type.
func (s *sorter) tagOf(t types.Type) int {
	k := typeKey(t)
	if n, ok := s.tags[k]; ok {
		return n
	}
	n := len(s.tags) + 1
	s.tags[k] = n
	s.tagList = append(s.tagList, t)
	s.sc.RawItem(fmt.Sprintf("(define-fun %s () Int %d)", Sym("tag:"+k), n), []string{Sym("tag:" + k)})
	return n
}

func (s *sorter) tagTerm(t types.Type) string {
	s.tagOf(t)
	return Sym("tag:" + typeKey(t))
}

// fieldID gives a unique id to (struct key, field index), used in Sub refs.
func (s *sorter) fieldID(si *structInfo, i int) int {
	k := fmt.Sprintf("%s#%d", si.key, i)
	if n, ok := s.fids[k]; ok {
		return n
	}
	n := len(s.fids) + 1
	s.fids[k] = n
	return n
}

// box wraps a value of concrete type t into the Ref payload of an interface.
func (s *sorter) box(t types.Type, v string) string {
	switch s.sortOf(t) {
	case "Ref":
		return v
	case "Int":
		return App("BoxI", v)
	case "String":
		return App("BoxS", v)
	case "Bool":
		return App("BoxB", v)
	}
	return ""
}

func (s *sorter) unbox(t types.Type, r string) string {
	switch s.sortOf(t) {
	case "Ref":
		return r
	case "Int":
		return App("unboxI", r)
	case "String":
		return App("unboxS", r)
	case "Bool":
		return App("unboxB", r)
	}
	return ""
}

// intRange returns the value range of an integer basic kind (ok=false for
// non-integers).
func intRange(t types.Type) (lo, hi string, ok bool) {
	b, isb := t.Underlying().(*types.Basic)
	if !isb || b.Info()&types.IsInteger == 0 {
		return
	}
	switch b.Kind() {
	case types.Int, types.Int64, types.UntypedInt, types.UntypedRune:
		return "(- 9223372036854775808)", "9223372036854775807", true
	case types.Int8:
		return "(- 128)", "127", true
	case types.Int16:
		return "(- 32768)", "32767", true
	case types.Int32:
		return "(- 2147483648)", "2147483647", true
	case types.Uint, types.Uint64, types.Uintptr:
		return "0", "18446744073709551615", true
	case types.Uint8:
		return "0", "255", true
	case types.Uint16:
		return "0", "65535", true
	case types.Uint32:
		return "0", "4294967295", true
	}
	return
}

func isUnsigned(t types.Type) bool {
	b, ok := t.Underlying().(*types.Basic)
	return ok && b.Info()&types.IsUnsigned != 0
}

func uintModulus(t types.Type) string {
	b := t.Underlying().(*types.Basic)
	switch b.Kind() {
	case types.Uint8:
		return "256"
	case types.Uint16:
		return "65536"
	case types.Uint32:
		return "4294967296"
	}
	return "18446744073709551616"
}

// typeInv returns the type invariant of a value v of Go type t (facts that
// hold of every well-typed Go value of that type).
func (s *sorter) typeInv(t types.Type, v string) string {
	switch u := t.Underlying().(type) {
	case *types.Basic:
		if lo, hi, ok := intRange(t); ok {
			return And(App("<=", lo, v), App("<=", v, hi))
		}
	case *types.Slice:
		return And(App("<=", "0", App("soff", v)), App("<=", "0", App("slen", v)), App("<=", App("slen", v), App("scap", v)),
			Imp(Eq(App("sarr", v), "nilR"), Eq(v, "nilS")))
	case *types.Interface:
		// nil interface is canonical; interfaces never hold typed nil pointers (assumption, see DESIGN)
		return And(Imp(Eq(App("itag", v), "0"), Eq(v, "nilI")), Imp(Not(Eq(App("itag", v), "0")), Not(Eq(App("iref", v), "nilR"))))
	case *types.Struct:
		si := s.structOf(t)
		var cs []string
		for i := 0; i < u.NumFields(); i++ {
			cs = append(cs, s.typeInv(u.Field(i).Type(), App(si.fields[i], v)))
		}
		return And(cs...)
	}
	return "true"
}
