package vc

import (
	"bytes"
	"context"
	"fmt"
	"os"
	"os/exec"
	"path/filepath"
	"strings"
	"sync"
	"time"
)

type Verdict struct {
	Status string // unsat | sat | unknown | timeout | error
	Solver string
	Time   float64
	Output string
}

type Solver struct {
	Name string
	Args func(file string, timeout time.Duration) []string
	Pre  string // text prepended to the query
}

var Solvers = []Solver{
	{Name: "z3-new", Args: func(f string, t time.Duration) []string {
		return []string{"z3-new", fmt.Sprintf("-T:%d", int(t.Seconds())+1), f}
	}},
	{Name: "z3", Args: func(f string, t time.Duration) []string {
		return []string{"z3", fmt.Sprintf("-T:%d", int(t.Seconds())+1), f}
	}},
	{Name: "cvc5", Pre: "(set-option :produce-models true)\n(set-logic ALL)\n", Args: func(f string, t time.Duration) []string {
		return []string{"cvc5", "--strings-exp", fmt.Sprintf("--tlimit=%d", t.Milliseconds()), f}
	}},
}

func runSolver(s Solver, query string, dir, tag string, timeout time.Duration, seed int) Verdict {
	file := filepath.Join(dir, tag+"."+s.Name+".smt2")
	pre := s.Pre
	if seed != 0 && strings.HasPrefix(s.Name, "z3") {
		pre += fmt.Sprintf("(set-option :smt.random_seed %d)\n", seed)
	}
	if err := os.WriteFile(file, []byte(pre+query), 0o644); err != nil {
		return Verdict{Status: "error", Solver: s.Name, Output: err.Error()}
	}
	args := s.Args(file, timeout)
	ctx, cancel := context.WithTimeout(context.Background(), timeout+2*time.Second)
	defer cancel()
	t0 := time.Now()
	cmd := exec.CommandContext(ctx, args[0], args[1:]...)
	var out bytes.Buffer
	cmd.Stdout = &out
	cmd.Stderr = &out
	cmd.Run()
	el := time.Since(t0).Seconds()
	text := out.String()
	first := ""
	for _, ln := range strings.Split(text, "\n") {
		ln = strings.TrimSpace(ln)
		if ln == "" || strings.HasPrefix(ln, "WARNING") {
			continue
		}
		first = ln
		break
	}
	v := Verdict{Solver: s.Name, Time: el, Output: text}
	switch first {
	case "unsat", "sat", "unknown":
		v.Status = first
	case "timeout":
		v.Status = "timeout"
	default:
		if ctx.Err() != nil || strings.Contains(text, "timeout") || strings.Contains(text, "interrupted") {
			v.Status = "timeout"
		} else {
			v.Status = "error"
		}
	}
	return v
}

// Decide runs the portfolio on one query. z3-new first with a short budget,
// then all solvers raced.
func Decide(query, dir, tag string, timeout time.Duration, seed int) Verdict {
	query = destring(query)
	var v Verdict
	type r struct{ v Verdict }
	ch := make(chan Verdict, len(Solvers))
	for _, s := range Solvers {
		go func(s Solver) { ch <- runSolver(s, query, dir, tag, timeout, seed) }(s)
	}
	var best Verdict
	var all []string
	total := v.Time
	for range Solvers {
		x := <-ch
		all = append(all, fmt.Sprintf("%s:%s(%.2fs)", x.Solver, x.Status, x.Time))
		if x.Status == "unsat" || x.Status == "sat" {
			// definite answer wins (remaining solvers finish on their own timeout)
			x.Output += "\n; portfolio: " + strings.Join(all, " ")
			x.Time += total
			return x
		}
		if best.Status == "" || best.Status == "error" {
			best = x
		}
	}
	best.Output += "\n; portfolio: " + strings.Join(all, " ")
	return best
}

// ParallelDo runs f over n items on w workers.
func ParallelDo(n, w int, f func(i int)) {
	var wg sync.WaitGroup
	ch := make(chan int)
	for k := 0; k < w; k++ {
		wg.Add(1)
		go func() {
			defer wg.Done()
			for i := range ch {
				f(i)
			}
		}()
	}
	for i := 0; i < n; i++ {
		ch <- i
	}
	close(ch)
	wg.Wait()
}
