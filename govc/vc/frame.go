package vc

import (
	"go/token"
	"strings"
)

// checkAssigns generates the frame obligations at a return point: every
// pre-existing location outside the assigns clause keeps its value.
func (fc *fnCtx) checkAssigns(st *State, pos token.Pos) {
	env := fc.envAt(fc.entry, fc.entry)
	allowedHeap := map[string]bool{}
	allowedKeys := map[string][]string{}
	condHeap := map[string][]string{} // heaps that may change entirely, but only under a condition
	for _, a := range fc.con.Assigns {
		tg := fc.assignTarget(env, a)
		switch tg.kind {
		case "everything":
			return
		case "except":
			for _, h := range fc.heapOrder {
				keep := false
				for _, k := range tg.heaps {
					if k == h {
						keep = true
					}
				}
				if !keep {
					allowedHeap[h] = true
				}
			}
		case "heap":
			for _, h := range tg.heaps {
				if tg.cond != "" && tg.cond != "true" {
					condHeap[h] = append(condHeap[h], tg.cond)
				} else {
					allowedHeap[h] = true
				}
			}
		case "loc":
			for i, h := range tg.heaps {
				k := tg.keys[i]
				if tg.cond != "" && tg.cond != "true" {
					// encoded as: loc may equal k only if cond held
					k = "(ite " + tg.cond + " " + k + " (Sub (R 0) (- 1)))"
				}
				allowedKeys[h] = append(allowedKeys[h], k)
			}
		}
	}
	for _, h := range append([]string{}, fc.heapOrder...) {
		if allowedHeap[h] {
			continue
		}
		exitT, entryT := fc.H(st, h), fc.H(fc.entry, h)
		if exitT == entryT {
			continue
		}
		loc := fc.sc.Fresh("frameloc")
		fc.sc.Decl(loc, nil, "Ref")
		hyp := []string{App("<", App("ageR", loc), fc.entry.alloc)}
		for _, c := range condHeap[h] {
			hyp = append(hyp, Not(c))
		}
		for _, k := range allowedKeys[h] {
			hyp = append(hyp, Not(Eq(loc, k)))
		}
		goal := Imp(And(hyp...), Eq(Select(exitT, loc), Select(entryT, loc)))
		fc.oblige(st.clone(), "assigns", goal, pos, nil, "assigns "+strings.Join(fc.con.Assigns, ", ")+" [heap "+h+"]")
	}
}
