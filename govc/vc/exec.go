package vc

import (
	"fmt"
	"go/constant"
	"go/token"
	"go/types"
	"math/big"
	"sort"
	"strings"

	"golang.org/x/tools/go/ssa"
)

// Obligation is one proof obligation of a function.
type Obligation struct {
	Name   string
	Kind   string // post, pre, safe.*, loop.inv.init, ...
	Props  []string
	Reach  string
	Goal   string
	Pos    string
	Clause string // contract text, if any
	Func   string
	fc     *fnCtx
	Cover  bool // a reachability cover: expected SAT
}

type fnCtx struct {
	g   *Gen
	fn  *ssa.Function
	con *Contract
	sc  *Script
	so  *sorter

	heapSort  map[string]string
	heapOrder []string
	epoch     int

	vals         map[ssa.Value]Val
	entry        *State
	exits        map[*ssa.BasicBlock]*State
	edgeCond     map[[2]int]string
	obls         []*Obligation
	ordinals     map[string]int
	loops        map[*ssa.BasicBlock]*loopInfo
	loopOrder    []*ssa.BasicBlock
	params       map[string]Val
	results      []Val
	notes        []string
	globals      map[string]string
	assumed      []string // assumptions used (for evidence)
	curBlock     *ssa.BasicBlock
	depth        int
	deferred     []*ssa.Defer
	deferArgs    [][]Val
	propsAll     []string
	closures     []*ssa.MakeClosure
	exceptKeeps  [][]string      // heaps kept by "heapexcept" frames of the calls of the loop being analysed
	loopKeep     map[string]bool // heaps a loop provably leaves alone although it calls functions with wide frames
	implSyms     map[string]types.Type
	pureDone     map[string]bool
	inQuant      int
	noOblige     int
	noGlobalInit int
	verCounter   int
	preHeaps     bool
	oldWrites    map[string]bool
	locWrites    map[string][]string
	curLoopState *State
	curLoop      *loopInfo
	sliceBase    map[string]sliceBaseRec
	locals       map[string]Val
	localIsAddr  map[string]bool
	globalVals   map[*ssa.Global]Val
	globalSyms   map[string]*ssa.Global
}

type sliceBaseRec struct{ off, delta string }

type loopInfo struct {
	header *ssa.BasicBlock
	body   map[*ssa.BasicBlock]bool
	ord    int
	back   []*ssa.BasicBlock
}

func (fc *fnCtx) note(format string, args ...any) {
	s := fmt.Sprintf(format, args...)
	for _, n := range fc.notes {
		if n == s {
			return
		}
	}
	fc.notes = append(fc.notes, s)
}

func (fc *fnCtx) pos(p token.Pos) string {
	if !p.IsValid() {
		return ""
	}
	ps := fc.g.Prog.Fset.Position(p)
	return fmt.Sprintf("%s:%d", shortFile(ps.Filename), ps.Line)
}

func shortFile(f string) string {
	if i := strings.Index(f, "/repo/"); i >= 0 {
		return f[i+6:]
	}
	return f
}

// oblige records an obligation at the current point and then assumes it.
func (fc *fnCtx) oblige(st *State, kind, goal string, pos token.Pos, props []string, clause string) {
	if goal == "true" {
		return
	}
	if fc.noOblige > 0 {
		fc.assume(st, goal)
		return
	}
	fc.ordinals[kind]++
	name := fmt.Sprintf("%s#%s.%d", fc.g.fnName(fc.fn), kind, fc.ordinals[kind])
	if props == nil {
		props = fc.propsAll
	}
	o := &Obligation{Name: name, Kind: kind, Props: props, Reach: st.reach, Goal: goal, Pos: fc.pos(pos), Clause: clause, Func: fc.g.fnName(fc.fn), fc: fc}
	fc.obls = append(fc.obls, o)
	fc.assume(st, goal)
}

// assume strengthens the reach condition of st.
func (fc *fnCtx) assume(st *State, fact string) {
	if fact == "true" {
		return
	}
	if fact == "false" || st.reach == "false" {
		st.reach = "false"
		return
	}
	sym := fc.sc.Fresh("reach")
	fc.sc.Def(sym, "Bool", And(st.reach, fact))
	st.reach = sym
}

func (fc *fnCtx) safety() bool { return fc.con == nil || !fc.con.NoSafety }

func (fc *fnCtx) safe(st *State, kind, goal string, pos token.Pos) {
	if !fc.safety() {
		fc.assume(st, goal)
		return
	}
	props := append([]string{"C17"}, fc.propsAll...)
	fc.oblige(st, "safe."+kind, goal, pos, uniq(props), "")
}

func uniq(xs []string) []string {
	seen := map[string]bool{}
	var r []string
	for _, x := range xs {
		if !seen[x] {
			seen[x] = true
			r = append(r, x)
		}
	}
	return r
}

// ---------------------------------------------------------------------------

// get returns the symbolic value of an SSA value.
func (fc *fnCtx) get(v ssa.Value) Val {
	if x, ok := fc.vals[v]; ok {
		return x
	}
	switch v := v.(type) {
	case *ssa.Const:
		return fc.constVal(v)
	case *ssa.Global:
		return Val{T: fc.globalRef(v), Sort: "Ref", Typ: v.Type()}
	case *ssa.Function:
		sym := Sym("fn!" + v.String())
		fc.sc.Decl(sym, nil, "Ref")
		fc.sc.Axiom(Not(Eq(sym, "nilR")), sym)
		return Val{T: sym, Sort: "Ref", Typ: v.Type()}
	case *ssa.Builtin:
		return Val{T: "nilR", Sort: "Ref", Typ: v.Type()}
	}
	bail("value %s (%T) not defined", v.Name(), v)
	return Val{}
}

func (fc *fnCtx) globalRef(g *ssa.Global) string {
	key := g.Pkg.Pkg.Name() + "." + g.Name()
	sym := Sym("g!" + key)
	fc.globalSyms[sym] = g
	if !fc.sc.Has(sym) {
		n := fc.g.globalID(g.Pkg.Pkg.Path() + "." + g.Name())
		fc.sc.Def(sym, "Ref", App("R", IntLit(int64(-n))))
		fc.sc.Axiom(Eq(App("age", sym), IntLit(int64(-n))), sym)
	}
	return sym
}

func (fc *fnCtx) constVal(c *ssa.Const) Val {
	t := c.Type()
	srt := fc.so.sortOf(t)
	if c.Value == nil {
		return Val{T: fc.so.zero(t), Sort: srt, Typ: t}
	}
	switch c.Value.Kind() {
	case constant.Bool:
		if constant.BoolVal(c.Value) {
			return Val{T: "true", Sort: srt, Typ: t}
		}
		return Val{T: "false", Sort: srt, Typ: t}
	case constant.String:
		return Val{T: StrLit(constant.StringVal(c.Value)), Sort: srt, Typ: t}
	case constant.Int:
		if srt == "Real" {
			bi, _ := new(big.Int).SetString(c.Value.ExactString(), 10)
			return Val{T: App("to_real", BigLit(bi)), Sort: srt, Typ: t}
		}
		bi, ok := new(big.Int).SetString(c.Value.ExactString(), 10)
		if !ok {
			bail("bad int const")
		}
		return Val{T: BigLit(bi), Sort: srt, Typ: t}
	case constant.Float:
		if srt == "Int" {
			bi, _ := new(big.Int).SetString(constant.ToInt(c.Value).ExactString(), 10)
			return Val{T: BigLit(bi), Sort: srt, Typ: t}
		}
		r, ok := new(big.Rat).SetString(c.Value.ExactString())
		if !ok {
			bail("bad float const")
		}
		num, den := BigLit(r.Num()), BigLit(r.Denom())
		return Val{T: App("/", App("to_real", num), App("to_real", den)), Sort: srt, Typ: t}
	}
	bail("unsupported constant %s", c.Value.ExactString())
	return Val{}
}

func (fc *fnCtx) set(v ssa.Value, x Val) {
	if x.Typ == nil {
		x.Typ = v.Type()
	}
	fc.vals[v] = x
}

// define names a term with a fresh constant so later terms stay small.
func (fc *fnCtx) define(v ssa.Value, term string, typ types.Type) Val {
	srt := fc.so.sortOf(typ)
	if isAtom(term) {
		x := Val{T: term, Sort: srt, Typ: typ}
		fc.vals[v] = x
		return x
	}
	sym := fc.sc.Fresh(fc.fn.Name() + "." + v.Name())
	fc.sc.Def(sym, srt, term)
	x := Val{T: sym, Sort: srt, Typ: typ}
	fc.vals[v] = x
	return x
}

func isAtom(t string) bool {
	return !strings.HasPrefix(t, "(") || len(t) < 24
}

// freshVal declares an unconstrained value of a Go type and assumes its type
// invariant.
func (fc *fnCtx) freshVal(st *State, prefix string, typ types.Type) Val {
	if tup, ok := typ.(*types.Tuple); ok {
		var vs []Val
		for i := 0; i < tup.Len(); i++ {
			vs = append(vs, fc.freshVal(st, fmt.Sprintf("%s.%d", prefix, i), tup.At(i).Type()))
		}
		return Val{Tup: vs, Typ: typ}
	}
	srt := fc.so.sortOf(typ)
	sym := fc.sc.Fresh(prefix)
	fc.sc.Decl(sym, nil, srt)
	if st != nil {
		fc.assume(st, fc.valInv(st, typ, sym))
	}
	return Val{T: sym, Sort: srt, Typ: typ}
}

// valInv: type invariant plus "allocated before now".
func (fc *fnCtx) valInv(st *State, typ types.Type, v string) string {
	inv := fc.so.typeInv(typ, v)
	switch typ.Underlying().(type) {
	case *types.Pointer, *types.Map, *types.Chan, *types.Signature:
		inv = And(inv, App("<", App("ageR", v), st.alloc))
	case *types.Interface:
		inv = And(inv, App("<", App("ageR", App("iref", v)), st.alloc))
	case *types.Slice:
		inv = And(inv, App("<", App("ageR", App("sarr", v)), st.alloc))
	}
	return inv
}

// ---------------------------------------------------------------------------
// control-flow structure

func (fc *fnCtx) findLoops() {
	fc.loops = map[*ssa.BasicBlock]*loopInfo{}
	for _, b := range fc.fn.Blocks {
		for _, s := range b.Succs {
			if s.Dominates(b) { // back edge b -> s
				li := fc.loops[s]
				if li == nil {
					li = &loopInfo{header: s, body: map[*ssa.BasicBlock]bool{s: true}}
					fc.loops[s] = li
				}
				li.back = append(li.back, b)
				// natural loop body
				var stack []*ssa.BasicBlock
				if !li.body[b] {
					li.body[b] = true
					stack = append(stack, b)
				}
				for len(stack) > 0 {
					x := stack[len(stack)-1]
					stack = stack[:len(stack)-1]
					for _, p := range x.Preds {
						if !li.body[p] {
							li.body[p] = true
							stack = append(stack, p)
						}
					}
				}
			}
		}
	}
	for h := range fc.loops {
		fc.loopOrder = append(fc.loopOrder, h)
	}
	sort.Slice(fc.loopOrder, func(i, j int) bool { return fc.loopOrder[i].Index < fc.loopOrder[j].Index })
	for i, h := range fc.loopOrder {
		fc.loops[h].ord = i
	}
}

func (fc *fnCtx) isBackEdge(from, to *ssa.BasicBlock) bool {
	return to.Dominates(from) && fc.loops[to] != nil
}

// topo orders blocks so that all forward predecessors come first.
func (fc *fnCtx) topo() []*ssa.BasicBlock {
	indeg := map[*ssa.BasicBlock]int{}
	reachable := map[*ssa.BasicBlock]bool{}
	var walk func(b *ssa.BasicBlock)
	walk = func(b *ssa.BasicBlock) {
		if reachable[b] {
			return
		}
		reachable[b] = true
		for _, s := range b.Succs {
			walk(s)
		}
	}
	walk(fc.fn.Blocks[0])
	if fc.fn.Recover != nil {
		// recover block is not supported; ignore (defer handling bails separately)
	}
	for _, b := range fc.fn.Blocks {
		if !reachable[b] {
			continue
		}
		for _, s := range b.Succs {
			if !fc.isBackEdge(b, s) {
				indeg[s]++
			}
		}
	}
	var order []*ssa.BasicBlock
	var ready []*ssa.BasicBlock
	ready = append(ready, fc.fn.Blocks[0])
	for len(ready) > 0 {
		// pick lowest index for determinism
		sort.Slice(ready, func(i, j int) bool { return ready[i].Index < ready[j].Index })
		b := ready[0]
		ready = ready[1:]
		order = append(order, b)
		for _, s := range b.Succs {
			if fc.isBackEdge(b, s) {
				continue
			}
			indeg[s]--
			if indeg[s] == 0 {
				ready = append(ready, s)
			}
		}
	}
	n := 0
	for range reachable {
		n++
	}
	if len(order) != n {
		bail("irreducible control flow")
	}
	return order
}

// ---------------------------------------------------------------------------

// run generates all obligations of the function.
func (fc *fnCtx) run() {
	fn := fc.fn
	if len(fn.Blocks) == 0 {
		bail("no body")
	}
	if fn.Recover != nil {
		fc.note("function has a recover block: panics recovered by deferred calls are not modelled")
	}
	fc.findLoops()
	order := fc.topo()

	st := &State{heap: map[string]string{}, base: "0", reach: "true"}
	a0 := Sym("alloc@0")
	fc.sc.Decl(a0, nil, "Int")
	st.alloc = a0
	fc.assume(st, App("<", "0", a0))

	// parameters
	fc.params = map[string]Val{}
	for i, p := range fn.Params {
		srt := fc.so.sortOf(p.Type())
		sym := Sym("p!" + p.Name())
		fc.sc.Decl(sym, nil, srt)
		v := Val{T: sym, Sort: srt, Typ: p.Type()}
		fc.vals[p] = v
		fc.params[p.Name()] = v
		fc.assume(st, fc.valInv(st, p.Type(), sym))
		if i == 0 && fn.Signature.Recv() != nil && srt == "Ref" && !(fc.con != nil && fc.con.Ghost["nilok"] != "") {
			fc.assume(st, Not(Eq(sym, "nilR")))
			fc.note("receiver assumed non-nil")
		}
	}
	for _, fv := range fn.FreeVars {
		srt := fc.so.sortOf(fv.Type())
		sym := Sym("fv!" + fv.Name())
		fc.sc.Decl(sym, nil, srt)
		v := Val{T: sym, Sort: srt, Typ: fv.Type()}
		fc.vals[fv] = v
		fc.params[fv.Name()] = v
		fc.assume(st, fc.valInv(st, fv.Type(), sym))
		fc.assume(st, Not(Eq(sym, "nilR")))
	}
	if fc.con != nil {
		for _, gs := range fc.con.GhostSets {
			st.heap[fc.ghostVar(gs.Name)] = "false"
		}
	}
	fc.entry = st.clone()
	fc.entry.heap = map[string]string{}

	// trusted axiom packs the contract opts into ("uses <ext name>")
	if fc.con != nil {
		for _, u := range fc.con.Uses {
			pack := fc.g.CS.ByFunc["ext::"+u]
			if pack == nil {
				bail("uses: no axiom pack %s", u)
			}
			fc.g.trustedUsed[u] = true
			aenv := &Env{fc: fc, st: st, old: st, pkg: fn.Pkg.Pkg, vars: map[string]Val{}, pureCtx: true}
			for _, ax := range pack.Axioms {
				fc.sc.Axiom(fc.evalClause(aenv, ax))
			}
		}
	}
	// preconditions
	if fc.con != nil {
		env := fc.envAt(st, nil)
		for _, c := range fc.con.Requires {
			fc.assume(st, fc.evalAssume(env, c))
		}
		// lemmas: pure facts proved from the preconditions (universally quantified over the parameters and anyval constants)
		for _, c := range fc.con.Lemmas {
			lst := st.clone()
			lenv := fc.envAt(lst, nil)
			fc.oblige(lst, "lemma", fc.evalClause(lenv, c), fn.Pos(), clauseProps(c, fc.propsAll), c.Text)
		}
		// vacuity cover: requires satisfiable
		fc.obls = append(fc.obls, &Obligation{Name: fc.g.fnName(fn) + "#cover.requires", Kind: "cover", Reach: st.reach, Goal: "false", Func: fc.g.fnName(fn), fc: fc, Cover: true, Props: fc.propsAll})
	}
	fc.entry.reach = st.reach

	entryStates := map[*ssa.BasicBlock]*State{fn.Blocks[0]: st}
	fc.exits = map[*ssa.BasicBlock]*State{}
	fc.edgeCond = map[[2]int]string{}

	for _, b := range order {
		var cur *State
		if b == fn.Blocks[0] {
			cur = entryStates[b]
		} else {
			cur = fc.mergeInto(b)
		}
		fc.curBlock = b
		if li := fc.loops[b]; li != nil {
			fc.loopHeader(li, cur)
		} else {
			fc.phis(b, cur)
		}
		fc.block(b, cur)
	}
}

// edge returns the condition under which control flows from p to b.
func (fc *fnCtx) edge(p, b *ssa.BasicBlock) string {
	ex := fc.exits[p]
	if ex == nil {
		return "false"
	}
	c, ok := fc.edgeCond[[2]int{p.Index, b.Index}]
	if !ok {
		return ex.reach
	}
	return And(ex.reach, c)
}

// mergeInto builds the entry state of b from its forward predecessors.
func (fc *fnCtx) mergeInto(b *ssa.BasicBlock) *State {
	var preds []*ssa.BasicBlock
	for _, p := range b.Preds {
		if fc.isBackEdge(p, b) {
			continue
		}
		if fc.exits[p] == nil || fc.exits[p].reach == "false" {
			continue // unreachable or panicking predecessor
		}
		if c, ok := fc.edgeCond[[2]int{p.Index, b.Index}]; ok && c == "false" {
			continue
		}
		preds = append(preds, p)
	}
	if len(preds) == 0 {
		return &State{heap: map[string]string{}, base: "dead", reach: "false", alloc: "0"}
	}
	if len(preds) == 1 {
		st := fc.exits[preds[0]].clone()
		r := fc.sc.Fresh("reach." + fmt.Sprint(b.Index))
		fc.sc.Def(r, "Bool", fc.edge(preds[0], b))
		st.reach = r
		return st
	}
	st := &State{heap: map[string]string{}}
	sameVer := true
	for _, p := range preds[1:] {
		if fc.exits[p].ver != fc.exits[preds[0]].ver {
			sameVer = false
		}
	}
	if sameVer {
		st.ver = fc.exits[preds[0]].ver
	} else {
		fc.verCounter++
		st.ver = fc.verCounter
	}
	var edges []string
	for _, p := range preds {
		e := fc.sc.Fresh(fmt.Sprintf("edge.%d.%d", p.Index, b.Index))
		fc.sc.Def(e, "Bool", fc.edge(p, b))
		edges = append(edges, e)
	}
	r := fc.sc.Fresh("reach." + fmt.Sprint(b.Index))
	fc.sc.Def(r, "Bool", Or(edges...))
	st.reach = r
	// base
	same := true
	for _, p := range preds[1:] {
		if fc.exits[p].base != fc.exits[preds[0]].base {
			same = false
		}
	}
	if same {
		st.base = fc.exits[preds[0]].base
	} else {
		fc.epoch++
		st.base = fmt.Sprint(fc.epoch)
	}
	names := map[string]bool{}
	for _, p := range preds {
		for k := range fc.exits[p].heap {
			names[k] = true
		}
	}
	if !same {
		for _, k := range fc.heapOrder {
			names[k] = true
		}
	}
	for _, k := range sortedKeys(names) {
		first := fc.H(fc.exits[preds[0]], k)
		all := true
		for _, p := range preds[1:] {
			if fc.H(fc.exits[p], k) != first {
				all = false
			}
		}
		if all {
			st.heap[k] = first
			continue
		}
		t := fc.H(fc.exits[preds[len(preds)-1]], k)
		for i := len(preds) - 2; i >= 0; i-- {
			t = Ite(edges[i], fc.H(fc.exits[preds[i]], k), t)
		}
		sym := fc.sc.Fresh(trimBars(k) + ".m")
		fc.sc.Def(sym, fc.heapSort[k], t)
		st.heap[k] = sym
	}
	// source-level locals: kept where every predecessor agrees (named phis are added when they are defined)
	for k, v := range fc.exits[preds[0]].locals {
		agree := true
		for _, p := range preds[1:] {
			if w, ok := fc.exits[p].locals[k]; !ok || w.T != v.T || fc.exits[p].localAddr[k] != fc.exits[preds[0]].localAddr[k] {
				agree = false
				break
			}
		}
		if agree {
			st.setLocal(k, v, fc.exits[preds[0]].localAddr[k])
		}
	}
	// alloc
	at := fc.exits[preds[len(preds)-1]].alloc
	for i := len(preds) - 2; i >= 0; i-- {
		at = Ite(edges[i], fc.exits[preds[i]].alloc, at)
	}
	if !isAtom(at) {
		sym := fc.sc.Fresh("alloc.m")
		fc.sc.Def(sym, "Int", at)
		at = sym
	}
	st.alloc = at
	return st
}

// phis defines the phi nodes of a non-loop-header block.
func (fc *fnCtx) phis(b *ssa.BasicBlock, st *State) {
	for _, ins := range b.Instrs {
		phi, ok := ins.(*ssa.Phi)
		if !ok {
			break
		}
		var t string
		first := true
		maybeElt := false
		for i := len(b.Preds) - 1; i >= 0; i-- {
			p := b.Preds[i]
			if fc.exits[p] == nil {
				continue
			}
			v := fc.get(phi.Edges[i])
			if v.Addr != nil {
				var ok bool
				if v, ok = fc.materialize(v); !ok {
					bail("phi of field address")
				}
			}
			if v.MaybeElt {
				maybeElt = true
			}
			if first {
				t = v.T
				first = false
			} else {
				t = Ite(fc.edge(p, b), v.T, t)
			}
		}
		if first {
			t = fc.so.zero(phi.Type())
		}
		d := fc.define(phi, t, phi.Type())
		if maybeElt {
			d.MaybeElt = true
			fc.vals[phi] = d
		}
		if phi.Comment != "" && d.Addr == nil && len(d.Tup) == 0 {
			st.setLocal(phi.Comment, fc.vals[phi], false)
		}
	}
}

// writeSet computes syntactically which heaps a set of blocks may modify.
// ok=false means "anything" (abstract call or unknown store).
func (fc *fnCtx) writeSet(blocks map[*ssa.BasicBlock]bool) (names map[string]bool, all bool) {
	names = map[string]bool{}
	fc.oldWrites = map[string]bool{}
	fc.locWrites = map[string][]string{}
	fc.exceptKeeps = nil
	fc.loopKeep = nil
	defer func() {
		// calls whose frame is "everything except K": the loop may write everything except the heaps every such
		// call keeps (and that nothing else in the loop writes)
		if len(fc.exceptKeeps) > 0 && !all {
			keep := map[string]bool{}
			for _, h := range fc.exceptKeeps[0] {
				keep[h] = true
			}
			for _, ks := range fc.exceptKeeps[1:] {
				in := map[string]bool{}
				for _, h := range ks {
					in[h] = true
				}
				for h := range keep {
					if !in[h] {
						delete(keep, h)
					}
				}
			}
			for h := range names {
				delete(keep, h)
			}
			fc.loopKeep = keep
			all = true
		}
	}()
	for b := range blocks {
		for _, ins := range b.Instrs {
			switch ins := ins.(type) {
			case *ssa.Store:
				tmp := map[string]bool{}
				if !fc.staticTargets(ins.Addr, tmp) {
					all = true
				}
				freshRoot := false
				if a, ok := rootOf(ins.Addr).(*ssa.Alloc); ok && blocks[a.Block()] {
					freshRoot = true
				}
				// a store into an element of a loop-invariant slice / a field of a loop-invariant object
				// only touches that array / object
				var locKey string
				switch a := ins.Addr.(type) {
				case *ssa.IndexAddr:
					if _, isSlice := a.X.Type().Underlying().(*types.Slice); isSlice && fc.definedOutside(a.X, blocks) {
						if v, ok := fc.vals[a.X]; ok && v.T != "" {
							locKey = App("sarr", v.T)
						}
					}
				case *ssa.FieldAddr:
					if ia, ok := a.X.(*ssa.IndexAddr); ok {
						// a field of an element of a loop-invariant slice of structs
						if _, isSlice := ia.X.Type().Underlying().(*types.Slice); isSlice && fc.definedOutside(ia.X, blocks) {
							if v, ok := fc.vals[ia.X]; ok && v.T != "" {
								locKey = App("sarr", v.T)
							}
						}
					} else if fc.definedOutside(a.X, blocks) && !fc.isValueAddr(a.X) {
						if v, ok := fc.vals[a.X]; ok && v.T != "" && v.Addr == nil {
							st0 := a.X.Type().Underlying().(*types.Pointer).Elem()
							if !isStruct(st0.Underlying().(*types.Struct).Field(a.Field).Type()) {
								locKey = v.T
							}
						}
					}
				}
				for k := range tmp {
					names[k] = true
					switch {
					case freshRoot:
					case locKey != "" && len(tmp) == 1:
						fc.locWrites[k] = append(fc.locWrites[k], locKey)
					default:
						fc.oldWrites[k] = true
					}
				}
			case *ssa.MapUpdate:
				if m, ok := ins.Map.Type().Underlying().(*types.Map); ok {
					d, v := fc.mapHeaps(m)
					names[d], names[v] = true, true
					fc.oldWrites[d], fc.oldWrites[v] = true, true
				} else {
					all = true
				}
			case *ssa.Call:
				tmp := map[string]bool{}
				if fc.callWrites(ins.Common(), tmp) {
					all = true
				}
				// precise targets: the callee's assigns clause names specific locations and all arguments are loop-invariant
				locs, precise := fc.callLocWrites(ins.Common(), blocks)
				for k := range tmp {
					names[k] = true
					if precise && len(locs[k]) > 0 {
						fc.locWrites[k] = append(fc.locWrites[k], locs[k]...)
					} else {
						fc.oldWrites[k] = true
					}
				}
			case *ssa.Defer, *ssa.Go, *ssa.Send, *ssa.Select:
				all = true
			}
		}
	}
	// a location key that reads a heap written in the loop is not loop-invariant: fall back to a full havoc
	for h, keys := range fc.locWrites {
		for _, k := range keys {
			syms := map[string]bool{}
			symbolsOf(k, syms)
			for sname := range syms {
				base := trimBars(sname)
				if i := strings.IndexAny(base, "@~"); i > 0 {
					base = base[:i]
				}
				if names[Sym(base)] || names[base] {
					fc.oldWrites[h] = true
				}
			}
		}
	}
	return
}

// definedOutside: is the SSA value defined outside the given set of blocks (loop-invariant)?
func (fc *fnCtx) definedOutside(v ssa.Value, blocks map[*ssa.BasicBlock]bool) bool {
	switch x := v.(type) {
	case *ssa.Parameter, *ssa.FreeVar, *ssa.Global, *ssa.Const:
		return true
	case ssa.Instruction:
		return !blocks[x.Block()]
	}
	return false
}

// staticTargets adds the heaps a store through addr may write.
func (fc *fnCtx) staticTargets(addr ssa.Value, names map[string]bool) bool {
	switch a := addr.(type) {
	case *ssa.FieldAddr:
		st := a.X.Type().Underlying().(*types.Pointer).Elem()
		si := fc.so.structOf(st)
		ft := si.st.Field(a.Field).Type()
		// is the base itself an address into a value (array element / array field)?
		if fc.isValueAddr(a.X) {
			return fc.staticTargets(a.X, names)
		}
		if isStruct(ft) {
			for _, h := range fc.leafHeaps(ft) {
				names[h] = true
			}
		} else {
			names[fc.fieldHeap(si, a.Field)] = true
		}
		return true
	case *ssa.IndexAddr:
		switch u := a.X.Type().Underlying().(type) {
		case *types.Slice:
			names[fc.elemHeap(u.Elem())] = true
			return true
		case *types.Pointer:
			arr := u.Elem().Underlying().(*types.Array)
			if fc.isValueAddr(a.X) {
				return fc.staticTargets(a.X, names)
			}
			names[fc.elemHeap(arr.Elem())] = true
			return true
		}
	case *ssa.Alloc, *ssa.Global, *ssa.Parameter, *ssa.Phi, *ssa.Call, *ssa.UnOp, *ssa.Extract, *ssa.FreeVar:
		et := addr.Type().Underlying().(*types.Pointer).Elem()
		switch u := et.Underlying().(type) {
		case *types.Struct:
			for _, h := range fc.leafHeaps(et) {
				names[h] = true
			}
		case *types.Array:
			names[fc.elemHeap(u.Elem())] = true
		default:
			names[fc.cellHeap(et)] = true
		}
		return true
	}
	return false
}

// isValueAddr: does the pointer value denote a location inside a by-value
// aggregate (array element or array-typed field), i.e. is it an Addr
// descriptor rather than a Ref?
func (fc *fnCtx) isValueAddr(p ssa.Value) bool {
	switch a := p.(type) {
	case *ssa.IndexAddr:
		return true
	case *ssa.FieldAddr:
		st := a.X.Type().Underlying().(*types.Pointer).Elem()
		ft := st.Underlying().(*types.Struct).Field(a.Field).Type()
		if fc.isValueAddr(a.X) {
			return true
		}
		return !isStruct(ft)
	}
	return false
}

// loopHeader processes phis of a loop header: init obligations, havoc, assume invariant.
func (fc *fnCtx) loopHeader(li *loopInfo, st *State) {
	b := li.header
	var spec *LoopSpec
	if fc.con != nil {
		spec = fc.con.Loops[li.ord]
	}
	// 1. incoming phi values (from forward edges)
	var phis []*ssa.Phi
	for _, ins := range b.Instrs {
		if phi, ok := ins.(*ssa.Phi); ok {
			phis = append(phis, phi)
		} else {
			break
		}
	}
	incoming := map[*ssa.Phi]string{}
	for _, phi := range phis {
		var t string
		first := true
		for i := len(b.Preds) - 1; i >= 0; i-- {
			p := b.Preds[i]
			if fc.isBackEdge(p, b) || fc.exits[p] == nil {
				continue
			}
			v := fc.get(phi.Edges[i])
			if v.Addr != nil {
				var ok bool
				if v, ok = fc.materialize(v); !ok {
					bail("phi of field address")
				}
			}
			if first {
				t = v.T
				first = false
			} else {
				t = Ite(fc.edge(p, b), v.T, t)
			}
		}
		incoming[phi] = t
	}
	// 2. invariant holds on entry
	kind := fmt.Sprintf("loop%d.inv", li.ord)
	if spec != nil {
		env := fc.envAt(st, fc.entry)
		env.useLocals = true
		env.loopVars = fc.loopVarMap(phis, func(p *ssa.Phi) string { return incoming[p] })
		for _, c := range spec.Invariants {
			fc.oblige(st, kind+".init", fc.evalClause(env, c), b.Instrs[0].Pos(), clauseProps(c, fc.propsAll), c.Text)
		}
		fc.curLoop = li
		for _, c := range spec.Entry {
			fc.oblige(st, fmt.Sprintf("loop%d.entry", li.ord), fc.evalClause(env, c), b.Instrs[0].Pos(), clauseProps(c, fc.propsAll), c.Text)
		}
		fc.curLoop = nil
	}
	// 3. havoc
	fc.curLoopState = st.clone()
	names, all := fc.writeSet(li.body)
	fc.curLoopState = nil
	if all {
		kept := map[string]string{}
		for h := range fc.loopKeep {
			kept[h] = fc.H(st, h)
		}
		fc.havocAll(st)
		for h, v := range kept {
			st.heap[h] = v
		}
		if len(kept) > 0 {
			fc.note("loop %d: body may write any heap except %v (callee frames); the rest is havoc'd at header", li.ord, sortedKeys(fc.loopKeep))
		} else {
			fc.note("loop %d: body may write any heap (abstract call); whole heap havoc'd at header", li.ord)
		}
	} else {
		for _, n := range sortedKeys(names) {
			before := fc.H(st, n)
			if !fc.oldWrites[n] && len(fc.locWrites[n]) > 0 {
				// only the listed loop-invariant objects/arrays (and objects allocated in the loop) are written
				fc.havocHeap(st, n)
				after := fc.H(st, n)
				bv := Sym(strings.ReplaceAll(strings.Trim(fc.sc.Fresh("q.loc"), "|"), "~", "_"))
				var ne []string
				for _, k := range fc.locWrites[n] {
					ne = append(ne, Not(Eq(bv, k)))
				}
				fc.assume(st, fmt.Sprintf("(forall ((%s Ref)) (! (=> (and (< (ageR %s) %s) %s) (= (select %s %s) (select %s %s))) :pattern ((select %s %s))))", bv, bv, st.alloc, And(ne...), after, bv, before, bv, after, bv))
				continue
			}
			fc.havocHeap(st, n)
			if !fc.oldWrites[n] {
				// every write to this heap inside the loop goes to an object allocated inside the loop:
				// locations that existed at loop entry keep their values
				after := fc.H(st, n)
				bv := Sym(strings.ReplaceAll(strings.Trim(fc.sc.Fresh("q.loc"), "|"), "~", "_"))
				fc.assume(st, fmt.Sprintf("(forall ((%s Ref)) (! (=> (< (ageR %s) %s) (= (select %s %s) (select %s %s))) :pattern ((select %s %s))))", bv, bv, st.alloc, after, bv, before, bv, after, bv))
			}
		}
	}
	// allocation counter may grow
	a2 := fc.sc.Fresh("alloc.l")
	fc.sc.Decl(a2, nil, "Int")
	fc.assume(st, App("<=", st.alloc, a2))
	st.alloc = a2
	for _, phi := range phis {
		v := fc.freshVal(st, fc.fn.Name()+"."+phi.Name()+"."+phi.Comment, phi.Type())
		// a loop-carried pointer may hold the address of a slice element
		for _, e := range phi.Edges {
			if _, isIdx := e.(*ssa.IndexAddr); isIdx {
				v.MaybeElt = true
			}
		}
		fc.vals[phi] = v
		if phi.Comment != "" && v.Addr == nil && len(v.Tup) == 0 {
			st.setLocal(phi.Comment, v, false) // blocks after the loop exit still name the variable
		}
	}
	// auto invariant for range-index loops: -1 <= i
	for _, phi := range phis {
		if fc.isRangeIndexPhi(phi) {
			fc.assume(st, App("<=", "(- 1)", fc.vals[phi].T))
			// upper bound: find len
			if lenv := fc.rangeLen(phi); lenv != nil {
				fc.assume(st, App("<", fc.vals[phi].T, App("ite", App("<", "0", fc.get(lenv).T), fc.get(lenv).T, "0")))
			}
		}
	}
	// 4. assume invariant
	if spec != nil {
		env := fc.envAt(st, fc.entry)
		env.useLocals = true
		env.loopVars = fc.loopVarMap(phis, func(p *ssa.Phi) string { return fc.vals[p].T })
		for _, c := range spec.Invariants {
			fc.assume(st, fc.evalAssume(env, c))
		}
	}
}

func clauseProps(c Clause, def []string) []string {
	if len(c.Props) > 0 {
		return c.Props
	}
	return def
}

func (fc *fnCtx) isRangeIndexPhi(phi *ssa.Phi) bool {
	if !strings.HasPrefix(phi.Block().Comment, "rangeindex.loop") {
		return false
	}
	for _, e := range phi.Edges {
		if c, ok := e.(*ssa.Const); ok && c.Value != nil && c.Value.Kind() == constant.Int {
			if n, ok := constant.Int64Val(c.Value); ok && n == -1 {
				return true
			}
		}
	}
	return false
}

// rangeSlice: the slice value a rangeindex loop iterates over (the operand of the len() the index is compared with).
func (fc *fnCtx) rangeSlice(li *loopInfo) ssa.Value {
	for _, ins := range li.header.Instrs {
		if phi, ok := ins.(*ssa.Phi); ok && fc.isRangeIndexPhi(phi) {
			if lv := fc.rangeLen(phi); lv != nil {
				if call, ok := lv.(*ssa.Call); ok {
					if b, ok := call.Call.Value.(*ssa.Builtin); ok && b.Name() == "len" {
						return call.Call.Args[0]
					}
				}
			}
		}
	}
	return nil
}

// rangeLen finds the length value the range index is compared against.
func (fc *fnCtx) rangeLen(phi *ssa.Phi) ssa.Value {
	for _, ins := range phi.Block().Instrs {
		if bo, ok := ins.(*ssa.BinOp); ok && bo.Op == token.LSS {
			if inc, ok := bo.X.(*ssa.BinOp); ok && inc.X == phi {
				if _, ok := fc.vals[bo.Y]; ok {
					return bo.Y
				}
				if _, ok := bo.Y.(*ssa.Const); ok {
					return bo.Y
				}
			}
		}
	}
	return nil
}

// loopVarMap maps source variable names to phi terms.
func (fc *fnCtx) loopVarMap(phis []*ssa.Phi, val func(*ssa.Phi) string) map[string]Val {
	m := map[string]Val{}
	for _, p := range phis {
		name := p.Comment
		if fc.isRangeIndexPhi(p) || name == "" {
			name = "rangeidx"
		}
		m[name] = Val{T: val(p), Sort: fc.so.sortOf(p.Type()), Typ: p.Type()}
	}
	return m
}

// backEdge checks loop invariants on a back edge from block p (state st).
func (fc *fnCtx) backEdge(p *ssa.BasicBlock, st *State, cond string, li *loopInfo) {
	b := li.header
	var spec *LoopSpec
	if fc.con != nil {
		spec = fc.con.Loops[li.ord]
	}
	if spec == nil {
		return
	}
	idx := -1
	for i, q := range b.Preds {
		if q == p {
			idx = i
		}
	}
	var phis []*ssa.Phi
	for _, ins := range b.Instrs {
		if phi, ok := ins.(*ssa.Phi); ok {
			phis = append(phis, phi)
		} else {
			break
		}
	}
	st2 := st.clone()
	fc.assume(st2, cond)
	env := fc.envAt(st2, fc.entry)
	env.useLocals = true
	env.loopVars = fc.loopVarMap(phis, func(ph *ssa.Phi) string {
		v := fc.get(ph.Edges[idx])
		if v.Addr != nil {
			if m, ok := fc.materialize(v); ok {
				return m.T
			}
			bail("loop-carried field address")
		}
		return v.T
	})
	kind := fmt.Sprintf("loop%d.inv", li.ord)
	for _, c := range spec.Invariants {
		fc.oblige(st2, kind+".pres", fc.evalClause(env, c), b.Instrs[0].Pos(), clauseProps(c, fc.propsAll), c.Text)
	}
	if spec.Decreases != nil {
		envH := fc.envAt(st2, fc.entry)
		envH.loopVars = fc.loopVarMap(phis, func(ph *ssa.Phi) string { return fc.vals[ph].T })
		// measure at header (in the header's state we only have phi values; heap-dependent measures are not supported)
		m0 := fc.evalExpr(envH, spec.Decreases.Text)
		m1 := fc.evalExpr(env, spec.Decreases.Text)
		fc.oblige(st2, fmt.Sprintf("loop%d.dec", li.ord), And(App("<=", "0", m0.T), App("<", m1.T, m0.T)), b.Instrs[0].Pos(), clauseProps(*spec.Decreases, fc.propsAll), spec.Decreases.Text)
	}
}

// block executes the non-phi instructions of b.
func (fc *fnCtx) block(b *ssa.BasicBlock, st *State) {
	for _, ins := range b.Instrs {
		if _, ok := ins.(*ssa.Phi); ok {
			continue
		}
		switch ins := ins.(type) {
		case *ssa.If:
			c := fc.get(ins.Cond).T
			fc.finishBlock(b, st, []string{c, Not(c)})
			return
		case *ssa.Jump:
			fc.finishBlock(b, st, []string{"true"})
			return
		case *ssa.Return:
			fc.doReturn(ins, st)
			return
		case *ssa.Panic:
			fc.doPanic(ins, st)
			return
		default:
			fc.instr(ins, st)
		}
	}
}

func (fc *fnCtx) finishBlock(b *ssa.BasicBlock, st *State, conds []string) {
	fc.exits[b] = st
	for i, s := range b.Succs {
		fc.edgeCond[[2]int{b.Index, s.Index}] = conds[i]
		if fc.isBackEdge(b, s) {
			fc.backEdge(b, st, conds[i], fc.loops[s])
		}
	}
	if len(b.Succs) == 2 && b.Succs[0] == b.Succs[1] {
		fc.edgeCond[[2]int{b.Index, b.Succs[0].Index}] = "true"
	}
}

func (fc *fnCtx) doPanic(ins *ssa.Panic, st *State) {
	// explicit panic: an exceptional exit. Allowed (reported error) unless the
	// contract has ensures_panic clauses (none yet).
	fc.exits[fc.curBlock] = nil
	if fc.con != nil && fc.con.Ghost["nopanic"] != "" {
		fc.oblige(st, "nopanic", "false", ins.Pos(), nil, "nopanic")
	}
}

func (fc *fnCtx) doReturn(ins *ssa.Return, st *State) {
	fc.exits[fc.curBlock] = nil
	if len(fc.deferred) > 0 {
		fc.note("deferred calls are executed at RunDefers (before return)")
	}
	if fc.con == nil {
		return
	}
	var res []Val
	for _, r := range ins.Results {
		v := fc.get(r)
		if v.Addr != nil {
			bail("returning field/element address")
		}
		res = append(res, v)
	}
	reachBefore := st.reach
	env := fc.envAt(st, fc.entry)
	env.results = res
	for _, c := range fc.con.Defines {
		fc.assume(st, fc.evalAssume(env, c))
	}
	for _, c := range fc.con.Ensures {
		fc.oblige(st, "post", fc.evalClause(env, c), ins.Pos(), clauseProps(c, fc.propsAll), c.Text)
	}
	if fc.con.HasAssign && !fc.con.TrustedFrame {
		fc.checkAssigns(st, ins.Pos())
	}
	if fc.con.NoReturn {
		fc.oblige(st, "noreturn", "false", ins.Pos(), nil, "noreturn")
	}
	// cover: return reachable
	fc.ordinals["cover.return"]++
	fc.obls = append(fc.obls, &Obligation{Name: fmt.Sprintf("%s#cover.return.%d", fc.g.fnName(fc.fn), fc.ordinals["cover.return"]), Kind: "cover", Reach: reachBefore, Goal: "false", Pos: fc.pos(ins.Pos()), Func: fc.g.fnName(fc.fn), fc: fc, Cover: true, Props: fc.propsAll})
	// cover: the facts assumed while the postconditions were evaluated (ghost definitions, invariants of the
	// values they read, the postconditions themselves) leave the path feasible
	if st.reach != reachBefore {
		fc.obls = append(fc.obls, &Obligation{Name: fmt.Sprintf("%s#cover.exit.%d", fc.g.fnName(fc.fn), fc.ordinals["cover.return"]), Kind: "cover", Reach: st.reach, Goal: "false", Pos: fc.pos(ins.Pos()), Func: fc.g.fnName(fc.fn), fc: fc, Cover: true, Props: fc.propsAll})
	}
}
