package vc

import (
	"fmt"
	"go/constant"
	"go/types"
	"sort"
	"strings"

	"golang.org/x/tools/go/ssa"
)

// Site is one syntactic source of run-to-run variation (C15) or one write to package-level state (C18).
type Site struct {
	Func string // function name as in contracts
	Kind string
	Ord  int
	Pos  string
	Note string
}

func (s Site) ID() string { return fmt.Sprintf("%s#%s.%d", s.Func, s.Kind, s.Ord) }

// modulePackages lists the SSA packages of the module that are part of the loaded program (non-test).
func (g *Gen) modulePackages() []*ssa.Package {
	const mod = "github.com/goplus/gogen"
	var ps []*ssa.Package
	for _, p := range g.Prog.AllPackages() {
		path := p.Pkg.Path()
		if path == mod || strings.HasPrefix(path, mod+"/") {
			ps = append(ps, p)
		}
	}
	sort.Slice(ps, func(i, j int) bool { return ps[i].Pkg.Path() < ps[j].Pkg.Path() })
	return ps
}

// allFunctions enumerates functions, methods and closures of a package in a stable order.
func (g *Gen) allFunctions(p *ssa.Package) []*ssa.Function {
	seen := map[*ssa.Function]bool{}
	var fs []*ssa.Function
	var add func(f *ssa.Function)
	add = func(f *ssa.Function) {
		if f == nil || seen[f] || f.Blocks == nil {
			return
		}
		seen[f] = true
		fs = append(fs, f)
		for _, a := range f.AnonFuncs {
			add(a)
		}
	}
	var names []string
	for n := range p.Members {
		names = append(names, n)
	}
	sort.Strings(names)
	for _, n := range names {
		switch m := p.Members[n].(type) {
		case *ssa.Function:
			add(m)
		case *ssa.Type:
			for _, t := range []types.Type{m.Type(), types.NewPointer(m.Type())} {
				ms := g.Prog.MethodSets.MethodSet(t)
				for i := 0; i < ms.Len(); i++ {
					if f := g.Prog.MethodValue(ms.At(i)); f != nil && f.Pkg == p && f.Synthetic == "" {
						add(f)
					}
				}
			}
		}
	}
	return fs
}

func (g *Gen) siteFuncName(f *ssa.Function) string {
	return g.fnName(f)
}

// ScanDet lists the determinism-relevant sites of every function of the module.
func (g *Gen) ScanDet() []Site {
	var sites []Site
	for _, p := range g.modulePackages() {
		for _, f := range g.allFunctions(p) {
			ord := map[string]int{}
			add := func(kind string, ins ssa.Instruction, note string) {
				ord[kind]++
				sites = append(sites, Site{Func: g.siteFuncName(f), Kind: "det." + kind, Ord: ord[kind], Pos: posLine(g.Prog.Fset.Position(ins.Pos()).String()), Note: note})
			}
			for _, b := range f.Blocks {
				for _, ins := range b.Instrs {
					switch ins := ins.(type) {
					case *ssa.Range:
						if _, ok := ins.X.Type().Underlying().(*types.Map); ok {
							add("maprange", ins, ins.X.Type().String())
						}
					case *ssa.Go:
						add("go", ins, "")
					case *ssa.Select:
						if len(ins.States) > 1 {
							add("select", ins, "")
						}
					case *ssa.Convert:
						if b, ok := ins.Type().Underlying().(*types.Basic); ok && b.Kind() == types.Uintptr {
							if xb, ok := ins.X.Type().Underlying().(*types.Basic); ok && xb.Kind() == types.UnsafePointer {
								add("ptrint", ins, "")
							}
						}
					}
					if c, ok := ins.(ssa.CallInstruction); ok {
						if callee := c.Common().StaticCallee(); callee != nil && callee.Pkg != nil {
							pp := callee.Pkg.Pkg.Path()
							name := callee.Name()
							full := pp + "." + name
							if callee.Signature.Recv() != nil {
								full = callee.String()
							}
							switch {
							case pp == "time" && (name == "Now" || name == "Since" || name == "Until"),
								pp == "math/rand", pp == "math/rand/v2", pp == "crypto/rand", pp == "hash/maphash",
								pp == "os" && (name == "Getpid" || name == "Hostname" || name == "Getenv" || name == "Environ"):
								add("env", ins, full)
							case full == "(*github.com/goplus/gogen.Package).ForEachFile" || (strings.HasPrefix(full, "(*github.com/goplus/gogen/typeutil.Map).") && (name == "Iterate" || name == "Keys" || name == "KeysString" || name == "String" || name == "toString")):
								// callers of the module's own order-exposing functions
								if !(pp == "github.com/goplus/gogen/typeutil" && p.Pkg.Path() == pp) {
									add("unorderedcall", ins, full)
								}
							case full == "(*sync.Map).Range":
								add("syncmaprange", ins, "")
							case pp == "reflect" && (name == "MapKeys" || name == "MapRange"):
								add("maprange", ins, full)
							case pp == "fmt" || pp == "log":
								for _, a := range c.Common().Args {
									if k, ok := a.(*ssa.Const); ok && k.Value != nil && k.Value.Kind() == constant.String && strings.Contains(constant.StringVal(k.Value), "%p") {
										add("ptrfmt", ins, full)
									}
								}
							}
						}
					}
				}
			}
		}
	}
	return sites
}

// ScanGlobalWrites lists every write to package-level state outside package initialisers (C18): stores and map
// updates whose address is rooted at a package-level variable, and appends/copies into slices loaded from one.
func (g *Gen) ScanGlobalWrites() []Site {
	var sites []Site
	for _, p := range g.modulePackages() {
		for _, f := range g.allFunctions(p) {
			if f.Name() == "init" && f.Parent() == nil || strings.HasPrefix(f.Name(), "init#") {
				continue
			}
			ord := map[string]int{}
			add := func(kind string, ins ssa.Instruction, gl ssa.Value) {
				ord[kind]++
				sites = append(sites, Site{Func: g.siteFuncName(f), Kind: "own." + kind, Ord: ord[kind], Pos: posLine(g.Prog.Fset.Position(ins.Pos()).String()), Note: gl.Name()})
			}
			for _, b := range f.Blocks {
				for _, ins := range b.Instrs {
					switch ins := ins.(type) {
					case *ssa.Store:
						if r, ok := rootOf(ins.Addr).(*ssa.Global); ok {
							add("globalstore", ins, r)
						}
					case *ssa.MapUpdate:
						if r, ok := rootOf(ins.Map).(*ssa.Global); ok {
							add("globalmap", ins, r)
						}
					case *ssa.Call:
						if bi, ok := ins.Call.Value.(*ssa.Builtin); ok && (bi.Name() == "copy" || bi.Name() == "clear" || bi.Name() == "delete") && len(ins.Call.Args) > 0 {
							if r, ok := rootOf(ins.Call.Args[0]).(*ssa.Global); ok {
								add("global"+bi.Name(), ins, r)
							}
						}
					}
				}
			}
		}
	}
	return sites
}

// ModulePackagePaths is used by the scan report.
func (g *Gen) ModulePackagePaths() []string {
	var r []string
	for _, p := range g.modulePackages() {
		r = append(r, fmt.Sprintf("%s(%d funcs)", p.Pkg.Path(), len(g.allFunctions(p))))
	}
	return r
}

// sharedNodeTypes: struct types of which a package initialiser of the module creates an instance that stays
// reachable from a package-level variable (allocations in init, and the pointee types of pointer-typed
// package-level variables of the module).
func (g *Gen) sharedNodeTypes() map[string]bool {
	r := map[string]bool{}
	addT := func(t types.Type) {
		if p, ok := t.Underlying().(*types.Pointer); ok {
			t = p.Elem()
		}
		if n, ok := t.(*types.Named); ok {
			if _, isS := n.Underlying().(*types.Struct); isS {
				// only syntax-tree nodes and builder structs: objects of go/types are written by go/types alone
				if n.Obj().Pkg() != nil && n.Obj().Pkg().Path() != "go/types" {
					r[types.TypeString(n, nil)] = true
				}
			}
		}
	}
	for _, p := range g.modulePackages() {
		for _, m := range p.Members {
			switch m := m.(type) {
			case *ssa.Global:
				addT(m.Type().Underlying().(*types.Pointer).Elem())
			case *ssa.Function:
				if m.Name() == "init" {
					for _, b := range m.Blocks {
						for _, ins := range b.Instrs {
							if a, ok := ins.(*ssa.Alloc); ok && a.Heap {
								addT(a.Type())
							}
						}
					}
				}
			}
		}
	}
	return r
}

// ScanNodeStores lists the field stores into objects of a shared node type whose base pointer is not an
// allocation of the same function (C18: such a store could hit a singleton shared by all builds).
func (g *Gen) ScanNodeStores() []Site {
	shared := g.sharedNodeTypes()
	var sites []Site
	for _, p := range g.modulePackages() {
		for _, f := range g.allFunctions(p) {
			if f.Name() == "init" && f.Parent() == nil {
				continue
			}
			ord := 0
			for _, b := range f.Blocks {
				for _, ins := range b.Instrs {
					st, ok := ins.(*ssa.Store)
					if !ok {
						continue
					}
					fa, ok := st.Addr.(*ssa.FieldAddr)
					if !ok {
						continue
					}
					base := fa.X
					for {
						if inner, ok := base.(*ssa.FieldAddr); ok { // field of an embedded struct value
							base = inner.X
							continue
						}
						break
					}
					pt, ok := base.Type().Underlying().(*types.Pointer)
					if !ok {
						continue
					}
					tn := types.TypeString(pt.Elem(), nil)
					if !shared[tn] {
						continue
					}
					if a, ok := base.(*ssa.Alloc); ok && a.Parent() == f {
						continue // freshly allocated here
					}
					ord++
					fld := pt.Elem().Underlying().(*types.Struct).Field(fa.Field).Name()
					sites = append(sites, Site{Func: g.siteFuncName(f), Kind: "own.nodestore", Ord: ord, Pos: posLine(g.Prog.Fset.Position(st.Pos()).String()), Note: tn + "." + fld})
				}
			}
		}
	}
	return sites
}

// SharedNodeTypeNames is used by reports.
func (g *Gen) SharedNodeTypeNames() []string { return sortedKeys(g.sharedNodeTypes()) }
