package vc

import (
	"fmt"
	"go/token"
	"go/types"
	"strings"

	"golang.org/x/tools/go/ssa"
)

// callee describes the target of a call for contract purposes.
type callee struct {
	name     string // display / symbol name
	con      *Contract
	pkg      *types.Package // scope for evaluating the contract
	sig      *types.Signature
	params   []string // parameter names, receiver first
	ptypes   []types.Type
	fn       *ssa.Function
	external bool
	invoke   bool
}

func recvName(sig *types.Signature) string {
	if r := sig.Recv(); r != nil {
		if r.Name() != "" && r.Name() != "_" {
			return r.Name()
		}
		return "recv"
	}
	return ""
}

func sigParams(sig *types.Signature, recvT types.Type) (names []string, ts []types.Type) {
	if recvT != nil {
		names = append(names, "recv")
		ts = append(ts, recvT)
	}
	for i := 0; i < sig.Params().Len(); i++ {
		p := sig.Params().At(i)
		n := p.Name()
		if n == "" || n == "_" {
			n = fmt.Sprintf("a%d", i)
		}
		names = append(names, n)
		ts = append(ts, p.Type())
	}
	return
}

func (fc *fnCtx) resolveCallee(c *ssa.CallCommon) *callee {
	if c.IsInvoke() {
		rt := c.Value.Type()
		name := fmt.Sprintf("(%s).%s", types.TypeString(rt, nil), c.Method.Name())
		ce := &callee{name: name, sig: c.Method.Type().(*types.Signature), invoke: true}
		ce.params, ce.ptypes = sigParams(ce.sig, rt)
		ce.pkg = c.Method.Pkg()
		ce.external = !fc.g.isInternalPkg(c.Method.Pkg())
		if ce.external {
			ce.con = fc.g.CS.ByFunc["ext::"+name]
		} else {
			short := fmt.Sprintf("(%s).%s", types.TypeString(rt, types.RelativeTo(c.Method.Pkg())), c.Method.Name())
			ce.con = fc.g.CS.ByFunc[c.Method.Pkg().Path()+"::"+short]
			ce.name = c.Method.Pkg().Name() + "." + short // the same symbol as in contract expressions
		}
		return ce
	}
	var fn *ssa.Function
	switch v := c.Value.(type) {
	case *ssa.Function:
		fn = v
	case *ssa.MakeClosure:
		fn = v.Fn.(*ssa.Function)
	default:
		return nil
	}
	ce := &callee{fn: fn, sig: fn.Signature}
	if fn.Pkg == nil && fn.Origin() != nil {
		// generic instantiation
		ce.name = fn.String()
	}
	var recvT types.Type
	if r := fn.Signature.Recv(); r != nil {
		recvT = r.Type()
	}
	ce.params, ce.ptypes = sigParams(fn.Signature, recvT)
	// prefer real parameter names when the body is available
	obj := fn.Object()
	var pkg *types.Package
	if obj != nil {
		pkg = obj.Pkg()
	} else if fn.Pkg != nil {
		pkg = fn.Pkg.Pkg
	} else if fn.Parent() != nil && fn.Parent().Pkg != nil {
		pkg = fn.Parent().Pkg.Pkg
	}
	ce.pkg = pkg
	ce.external = !fc.g.isInternalPkg(pkg)
	if len(fn.Params) == len(ce.params) {
		for i, p := range fn.Params {
			if i == 0 && recvT != nil && ce.external {
				continue // externals: the receiver is always called recv
			}
			if p.Name() != "" && p.Name() != "_" {
				ce.params[i] = p.Name()
			}
		}
	}
	if ce.external {
		ce.name = fn.String()
		ce.con = fc.g.CS.ByFunc["ext::"+ce.name]
	} else {
		ce.name = fc.g.fnName(fn)
		ce.con = fc.g.CS.ByFunc[pkg.Path()+"::"+fn.RelString(pkg)]
	}
	return ce
}

// funcTypeCallee: a call through a value of a named function type that has a "func type:Name" contract.
func (fc *fnCtx) funcTypeCallee(c *ssa.CallCommon) *callee {
	nt, ok := c.Value.Type().(*types.Named)
	if !ok || nt.Obj().Pkg() == nil {
		return nil
	}
	con := fc.g.CS.ByFunc[nt.Obj().Pkg().Path()+"::type:"+nt.Obj().Name()]
	if con == nil {
		return nil
	}
	sig := nt.Underlying().(*types.Signature)
	fce := &callee{name: nt.Obj().Pkg().Name() + ".type:" + nt.Obj().Name(), con: con, pkg: nt.Obj().Pkg(), sig: sig}
	fce.params, fce.ptypes = sigParams(sig, nil)
	fce.params = append([]string{"fn"}, fce.params...)
	fce.ptypes = append([]types.Type{nt}, fce.ptypes...)
	return fce
}

func (fc *fnCtx) doCall(ins *ssa.Call, st *State) {
	c := ins.Common()
	if b, ok := c.Value.(*ssa.Builtin); ok {
		fc.doBuiltin(ins, b, st)
		return
	}
	var args []Val
	if c.IsInvoke() {
		r := fc.get(c.Value)
		fc.safe(st, "nil", Not(Eq(r.T, "nilI")), ins.Pos())
		args = append(args, r)
	}
	for _, a := range c.Args {
		args = append(args, fc.get(a))
	}
	ce := fc.resolveCallee(c)
	if ce != nil && ce.external && fc.atomicOp(ins, ce, args, st) {
		return
	}
	res := fc.applyCall(st, ce, c, args, ins.Pos(), ins.Type())
	fc.vals[ins] = res
}

// atomicOp models sync/atomic integer operations as plain (sequential) loads and stores.
func (fc *fnCtx) atomicOp(ins *ssa.Call, ce *callee, args []Val, st *State) bool {
	if !strings.HasPrefix(ce.name, "sync/atomic.") || len(args) == 0 {
		return false
	}
	op := strings.TrimPrefix(ce.name, "sync/atomic.")
	p := args[0]
	if p.Addr == nil {
		fc.safe(st, "nil", Not(Eq(p.T, "nilR")), ins.Pos())
	}
	fc.note("sync/atomic.%s modelled as a sequential memory operation", op)
	switch {
	case strings.HasPrefix(op, "Add") && len(args) == 2:
		v := fc.deref(st, p)
		nv := App("+", v.T, args[1].T)
		fc.storeThrough(st, p, nv)
		fc.define(ins, nv, ins.Type())
		return true
	case strings.HasPrefix(op, "Load") && len(args) == 1:
		v := fc.deref(st, p)
		fc.define(ins, v.T, ins.Type())
		return true
	case strings.HasPrefix(op, "Store") && len(args) == 2:
		fc.storeThrough(st, p, args[1].T)
		fc.vals[ins] = Val{T: "true", Sort: "Bool", Typ: ins.Type()}
		return true
	}
	return false
}

// applyCall models a call: checks the callee's precondition, applies its frame and assumes its postcondition.
func (fc *fnCtx) applyCall(st *State, ce *callee, c *ssa.CallCommon, args []Val, pos token.Pos, resT types.Type) Val {
	if ce == nil {
		// dynamic call through a function value
		fv := fc.get(c.Value)
		fc.safe(st, "nil", Not(Eq(fv.T, "nilR")), pos)
		// a named function type may carry a contract ("func type:Name")
		if fce := fc.funcTypeCallee(c); fce != nil {
			fc.g.trustedUsed[fce.name] = true
			return fc.applyCall(st, fce, c, append([]Val{fv}, args...), pos, resT)
		}
		fc.note("call through function value %s: abstract (whole heap havoc'd)", c.Value.Name())
		fc.havocAll(st)
		fc.bumpAlloc(st)
		return fc.freshVal(st, "dyn", resT)
	}
	fc.callSiteClauses(st, ce, args, pos)
	con := ce.con
	if con == nil {
		con = fc.g.defaultContract(ce)
	}
	if ce.external && !ce.invoke && ce.sig.Recv() != nil && len(args) > 0 && args[0].Sort == "Ref" && args[0].Addr == nil {
		if _, isPtr := ce.sig.Recv().Type().Underlying().(*types.Pointer); isPtr && (con == nil || con.Ghost["nilok"] == "") {
			fc.safe(st, "extnil", Not(Eq(args[0].T, "nilR")), pos)
		}
	}
	if con == nil {
		fc.note("call to %s has no contract: abstract (whole heap havoc'd, result unconstrained)", ce.name)
		fc.g.abstractCalls[ce.name]++
		fc.havocAll(st)
		fc.bumpAlloc(st)
		return fc.freshVal(st, "abs."+shortName(ce.name), resT)
	}
	if con.Trusted {
		fc.g.trustedUsed[ce.name] = true
	}
	for i := range args {
		if args[i].Addr != nil {
			if con.Pure || con.ReadOnly {
				// opaque pointer argument
				sym := fc.sc.Fresh("addrarg")
				fc.sc.Decl(sym, nil, "Ref")
				args[i] = Val{T: sym, Sort: "Ref", Typ: args[i].Typ}
				continue
			}
			bail("passing a field/element address to %s", ce.name)
		}
	}
	if len(args) != len(ce.params) {
		bail("arity mismatch calling %s: %d args, %d params", ce.name, len(args), len(ce.params))
	}
	// precondition
	pre := st.clone()
	env := &Env{fc: fc, st: st, old: st, pkg: ce.pkg, vars: map[string]Val{}}
	for i, n := range ce.params {
		a := args[i]
		if a.Typ == nil {
			a.Typ = ce.ptypes[i]
		}
		env.vars[n] = a
	}
	for _, r := range con.Requires {
		kind := "call." + shortName(ce.name) + ".pre"
		if con.Trusted && ce.external {
			kind = "safe.ext." + shortName(ce.name)
			if !fc.safety() {
				fc.assume(st, fc.evalAssume(env, r))
				continue
			}
			fc.oblige(st, kind, fc.evalClause(env, r), pos, uniq(append([]string{"C17"}, fc.propsAll...)), r.Text)
			continue
		}
		if fc.con != nil && fc.con.Partial {
			fc.assume(st, fc.evalAssume(env, r))
			continue
		}
		fc.oblige(st, kind, fc.evalClause(env, r), pos, nil, r.Text)
	}
	// result
	var res Val
	if con.Pure {
		res = fc.pureApp(ce, con, args, resT)
		return res
	}
	// frame
	if !con.ReadOnly {
		if con.HasAssign {
			fc.havocAssigns(st, env, con)
		} else {
			fc.note("call to %s: contract has no assigns clause, whole heap havoc'd", ce.name)
			fc.havocAll(st)
		}
	}
	fc.bumpAlloc(st)
	res = fc.freshVal(st, "r."+shortName(ce.name), resT)
	post := &Env{fc: fc, st: st, old: pre, pkg: ce.pkg, vars: env.vars}
	if len(res.Tup) > 0 {
		post.results = res.Tup
	} else if res.T != "" && resT != nil {
		if tup, ok := resT.(*types.Tuple); !ok || tup.Len() > 0 {
			post.results = []Val{res}
		}
	}
	for _, e := range con.Ensures {
		fc.assume(st, fc.evalAssume(post, e))
	}
	for _, e := range con.Defines {
		fc.assume(st, fc.evalAssume(post, e))
	}
	for _, e := range con.TEnsures {
		fc.assume(st, fc.evalAssume(post, e))
		fc.g.trustedUsed[ce.name+" (tensures: "+e.Text+")"] = true
	}
	if con.TrustedFrame {
		fc.g.trustedUsed[ce.name+" (frame assumed)"] = true
	}
	if con.NoReturn {
		fc.assume(st, "false")
	}
	return res
}

// enclosingLoopVars: the loop-carried variables (current values) of the loops that contain the block being executed.
func (fc *fnCtx) enclosingLoopVars() map[string]Val {
	m := map[string]Val{}
	if fc.curBlock == nil {
		return m
	}
	for _, h := range fc.loopOrder {
		li := fc.loops[h]
		if !li.body[fc.curBlock] {
			continue
		}
		var phis []*ssa.Phi
		for _, ins := range h.Instrs {
			if phi, ok := ins.(*ssa.Phi); ok {
				phis = append(phis, phi)
			} else {
				break
			}
		}
		for k, v := range fc.loopVarMap(phis, func(p *ssa.Phi) string { return fc.vals[p].T }) {
			m[k] = v // inner loops (later in order) shadow outer ones
		}
	}
	return m
}

// baseName: the function name after the last dot ("(*CodeBuilder).handleCodeError" -> "handleCodeError").
func baseName(s string) string {
	if i := strings.LastIndex(s, "."); i >= 0 {
		return s[i+1:]
	}
	return s
}

// callSiteClauses handles the assertcall / ghostset clauses of the function under verification.
func (fc *fnCtx) callSiteClauses(st *State, ce *callee, args []Val, pos token.Pos) {
	if fc.con == nil || fc.noOblige > 0 || (len(fc.con.CallAsserts) == 0 && len(fc.con.GhostSets) == 0 && len(fc.con.CallAssumes) == 0) {
		return
	}
	bn := baseName(ce.name)
	calleeEnv := func() *Env {
		env := &Env{fc: fc, st: st, old: fc.entry, pkg: ce.pkg, vars: map[string]Val{}}
		for i, n := range ce.params {
			if i < len(args) {
				a := args[i]
				if a.Typ == nil {
					a.Typ = ce.ptypes[i]
				}
				env.vars[n] = a
			}
		}
		return env
	}
	for _, ca := range fc.con.CallAsserts {
		if ca.Callee != bn {
			continue
		}
		cond := "true"
		if ca.Cond != "" {
			cond = calleeEnv().evalBoolText(ca.Cond)
		}
		if cond == "false" {
			continue
		}
		env := fc.envAt(st, fc.entry)
		env.useLocals = true
		env.loopVars = fc.enclosingLoopVars()
		// the callee's arguments are visible as arg_<param>
		vars := map[string]Val{}
		for k, v := range env.vars {
			vars[k] = v
		}
		for k, v := range calleeEnv().vars {
			vars["arg_"+k] = v
		}
		env.vars = vars
		goal := Imp(cond, fc.evalClause(env, ca.Clause))
		fc.oblige(st, "callassert."+bn, goal, pos, ca.Clause.Props, ca.Clause.Text)
	}
	for _, ca := range fc.con.CallAssumes {
		if ca.Callee != bn {
			continue
		}
		env := fc.envAt(st, fc.entry)
		env.useLocals = true
		vars := map[string]Val{}
		for k, v := range env.vars {
			vars[k] = v
		}
		for k, v := range calleeEnv().vars {
			vars["arg_"+k] = v
		}
		env.vars = vars
		fc.assume(st, fc.evalAssume(env, ca.Clause))
		fc.note("ASSUMED at call to %s: %s", bn, ca.Clause.Text)
	}
	for _, gs := range fc.con.GhostSets {
		if gs.Callee != bn {
			continue
		}
		cond := "true"
		if gs.Cond != "" {
			cond = calleeEnv().evalBoolText(gs.Cond)
		}
		if cond == "false" {
			continue
		}
		name := fc.ghostVar(gs.Name)
		cur := fc.H(st, name)
		sym := fc.sc.Fresh("ghost." + gs.Name)
		fc.sc.Def(sym, "Bool", Or(cond, cur))
		st.heap[name] = sym
	}
}

func (fc *fnCtx) ghostVar(name string) string {
	n := Sym("ghost!" + name)
	fc.heapSort[n] = "Bool"
	return n
}

func shortName(s string) string {
	if i := strings.LastIndex(s, "/"); i >= 0 {
		s = s[i+1:]
	}
	return s
}

func (fc *fnCtx) bumpAlloc(st *State) {
	a2 := fc.sc.Fresh("alloc.c")
	fc.sc.Decl(a2, nil, "Int")
	fc.assume(st, App("<=", st.alloc, a2))
	st.alloc = a2
}

// pureApp builds the application of a pure function symbol and registers the
// instance of its contract as a background fact.
func (fc *fnCtx) pureApp(ce *callee, con *Contract, args []Val, resT types.Type) Val {
	if tup, ok := resT.(*types.Tuple); ok {
		if tup.Len() == 1 {
			resT = tup.At(0).Type()
		} else if tup.Len() > 1 {
			var vs []Val
			for i := 0; i < tup.Len(); i++ {
				vs = append(vs, fc.pureApp1(ce, con, args, tup.At(i).Type(), fmt.Sprintf("#%d", i)))
			}
			fc.pureFacts(ce, con, args, vs)
			return Val{Tup: vs, Typ: resT}
		} else {
			return Val{T: "true", Sort: "Bool", Typ: resT}
		}
	}
	v := fc.pureApp1(ce, con, args, resT, "")
	fc.pureFacts(ce, con, args, []Val{v})
	return v
}

func (fc *fnCtx) pureApp1(ce *callee, con *Contract, args []Val, resT types.Type, suffix string) Val {
	sym := Sym("f!" + ce.name + suffix)
	var asorts, aterms []string
	for _, a := range args {
		asorts = append(asorts, a.Sort)
		aterms = append(aterms, a.T)
	}
	rs := fc.so.sortOf(resT)
	fc.sc.Decl(sym, asorts, rs)
	t := sym
	if len(aterms) > 0 {
		t = App(sym, aterms...)
	}
	return Val{T: t, Sort: rs, Typ: resT}
}

func (fc *fnCtx) pureFacts(ce *callee, con *Contract, args []Val, res []Val) {
	if len(con.Axioms) > 0 && !fc.pureDone["axioms:"+ce.name] {
		fc.pureDone["axioms:"+ce.name] = true
		aenv := &Env{fc: fc, st: fc.entry, old: fc.entry, pkg: ce.pkg, vars: map[string]Val{}, pureCtx: true}
		for _, ax := range con.Axioms {
			fc.sc.Axiom(fc.evalClause(aenv, ax), Sym("f!"+ce.name))
		}
	}
	key := ce.name
	for _, a := range args {
		key += "\x00" + a.T
	}
	if fc.pureDone[key] {
		return
	}
	fc.pureDone[key] = true
	if fc.depth > 1 || fc.inQuant > 0 {
		delete(fc.pureDone, key)
		return
	}
	fc.depth++
	defer func() { fc.depth-- }()
	env := &Env{fc: fc, st: fc.entry, old: fc.entry, pkg: ce.pkg, vars: map[string]Val{}, results: res, pureCtx: true}
	for i, n := range ce.params {
		a := args[i]
		if a.Typ == nil {
			a.Typ = ce.ptypes[i]
		}
		env.vars[n] = a
	}
	var pre []string
	for _, r := range con.Requires {
		pre = append(pre, fc.evalClause(env, r))
	}
	var facts []string
	for _, r := range res {
		if r.Typ != nil {
			facts = append(facts, fc.so.typeInv(r.Typ, r.T))
		}
	}
	for _, e := range con.Ensures {
		facts = append(facts, fc.evalClause(env, e))
	}
	f := Imp(And(pre...), And(facts...))
	if f != "true" {
		// include the instance only in queries that mention this very application's arguments
		trig := map[string]bool{}
		for _, a := range args {
			symbolsOf(a.T, trig)
		}
		tl := []string{Sym("f!" + ce.name)}
		for _, k := range sortedKeys(trig) {
			if fc.sc.Has(k) && k != tl[0] {
				tl = append(tl, k)
			}
		}
		fc.sc.Axiom(f, tl...)
	}
}

// havocAssigns havocs the locations listed in the callee's assigns clause.
func (fc *fnCtx) havocAssigns(st *State, env *Env, con *Contract) {
	// all targets are evaluated in the pre-state
	pre := *env
	pre.st = st.clone()
	pre.old = pre.st
	var tgs []assignTarget
	for _, a := range con.Assigns {
		tgs = append(tgs, fc.assignTarget(&pre, a))
	}
	for _, tg := range tgs {
		fc.applyHavoc(st, tg)
	}
}

// assigns targets:
//
//	x.f            the field f of object x (all leaves if f is a struct)
//	*p             the cell / struct p points to
//	elems(s)       the backing array of slice s
//	map(m)         the content of map m
//	all(T.f)       field f of every object of struct type T
//	allelems(T)    every backing array with element type T
//	heap           everything
func (fc *fnCtx) applyHavoc(st *State, tg assignTarget) {
	switch tg.kind {
	case "everything":
		fc.havocAll(st)
	case "except":
		saved := map[string]string{}
		for _, h := range tg.heaps {
			saved[h] = fc.H(st, h)
		}
		fc.havocAll(st)
		for h, t := range saved {
			st.heap[h] = t
		}
	case "heap":
		for _, h := range tg.heaps {
			before := fc.H(st, h)
			fc.havocHeap(st, h)
			if tg.cond != "" && tg.cond != "true" {
				fc.setH(st, h, Ite(tg.cond, fc.H(st, h), before))
			}
		}
	case "loc":
		for i, h := range tg.heaps {
			fresh := fc.sc.Fresh("hv")
			fc.sc.Decl(fresh, nil, elemSortOfHeap(fc.heapSort[h]))
			before := fc.H(st, h)
			nh := Store(before, tg.keys[i], fresh)
			if tg.cond != "" && tg.cond != "true" {
				nh = Ite(tg.cond, nh, before)
			}
			fc.setH(st, h, nh)
		}
	}
}

type assignTarget struct {
	kind  string // everything | heap | loc | except
	heaps []string
	keys  []string
	cond  string // when(cond, target): the target may only change if cond held in the pre-state
}

func elemSortOfHeap(arraySort string) string {
	// "(Array Ref X)" -> X
	s := strings.TrimPrefix(arraySort, "(Array Ref ")
	return strings.TrimSuffix(s, ")")
}

func (fc *fnCtx) assignTarget(env *Env, text string) assignTarget {
	text = strings.TrimSpace(text)
	if strings.HasPrefix(text, "when(") && strings.HasSuffix(text, ")") {
		parts := splitTop(text[5:len(text)-1], ',')
		if len(parts) < 2 {
			bail("assigns when(cond, target): bad syntax")
		}
		cond := env.evalBoolText(strings.TrimSpace(parts[0]))
		tg := fc.assignTarget(env, strings.TrimSpace(strings.Join(parts[1:], ",")))
		tg.cond = And(tg.cond, cond)
		return tg
	}
	if text == "heap" || text == "everything" {
		return assignTarget{kind: "everything"}
	}
	if strings.HasPrefix(text, "heapexcept(") && strings.HasSuffix(text, ")") {
		// everything except the cells of the listed types (locals whose address is passed around)
		var keep []string
		for _, a := range splitTop(text[11:len(text)-1], ';') {
			a = strings.TrimSpace(a)
			if strings.HasPrefix(a, "[]") {
				keep = append(keep, fc.elemHeap(env.resolveType(parseExprOrBail(a[2:]))))
				continue
			}
			if strings.HasPrefix(a, "field:") {
				// field:T.f — the heap of field f of struct type T
				a = strings.TrimPrefix(a, "field:")
				i := strings.LastIndex(a, ".")
				t := env.resolveType(parseExprOrBail(a[:i]))
				si := fc.so.structOf(t)
				found := false
				for k := 0; k < si.st.NumFields(); k++ {
					if si.st.Field(k).Name() == a[i+1:] {
						keep = append(keep, fc.fieldHeap(si, k))
						found = true
					}
				}
				if !found {
					bail("heapexcept: no field %s", a)
				}
				continue
			}
			if strings.HasPrefix(a, "map:") {
				// map:map[K]V — the heaps of maps of that type
				mt, ok := env.resolveType(parseExprOrBail(strings.TrimPrefix(a, "map:"))).Underlying().(*types.Map)
				if !ok {
					bail("heapexcept: map: needs a map type")
				}
				d, v := fc.mapHeaps(mt)
				keep = append(keep, d, v)
				continue
			}
			if strings.HasPrefix(a, "ghost:") {
				d, v := fc.ghostHeaps(strings.TrimPrefix(a, "ghost:"))
				keep = append(keep, d, v)
				continue
			}
			t := env.resolveType(parseExprOrBail(a))
			keep = append(keep, fc.cellHeap(t))
		}
		return assignTarget{kind: "except", heaps: keep}
	}
	if strings.HasPrefix(text, "all(") && strings.HasSuffix(text, ")") {
		inner := text[4 : len(text)-1]
		i := strings.LastIndex(inner, ".")
		t := env.resolveType(parseExprOrBail(inner[:i]))
		si := fc.so.structOf(t)
		for k := 0; k < si.st.NumFields(); k++ {
			if si.st.Field(k).Name() == inner[i+1:] {
				ft := si.st.Field(k).Type()
				if isStruct(ft) {
					return assignTarget{kind: "heap", heaps: fc.leafHeaps(ft)}
				}
				return assignTarget{kind: "heap", heaps: []string{fc.fieldHeap(si, k)}}
			}
		}
		bail("assigns: no field %s", text)
	}
	if strings.HasPrefix(text, "allelems(") && strings.HasSuffix(text, ")") {
		t := env.resolveType(parseExprOrBail(text[9 : len(text)-1]))
		return assignTarget{kind: "heap", heaps: []string{fc.elemHeap(t)}}
	}
	if strings.HasPrefix(text, "elems(") && strings.HasSuffix(text, ")") {
		v := env.eval(parseExprOrBail(text[6 : len(text)-1]))
		sl, ok := v.Typ.Underlying().(*types.Slice)
		if !ok {
			bail("assigns elems(%s): not a slice", text)
		}
		return assignTarget{kind: "loc", heaps: []string{fc.elemHeap(sl.Elem())}, keys: []string{App("sarr", v.T)}}
	}
	if strings.HasPrefix(text, "gmap(") && strings.HasSuffix(text, ")") {
		parts := splitTop(text[5:len(text)-1], ',')
		d, v := fc.ghostHeaps(strings.TrimSpace(parts[0]))
		obj := env.evalRefArg(parseExprOrBail(strings.TrimSpace(parts[1])))
		return assignTarget{kind: "loc", heaps: []string{d, v}, keys: []string{obj, obj}}
	}
	if strings.HasPrefix(text, "map(") && strings.HasSuffix(text, ")") {
		v := env.eval(parseExprOrBail(text[4 : len(text)-1]))
		m, ok := v.Typ.Underlying().(*types.Map)
		if !ok {
			bail("assigns map(%s): not a map", text)
		}
		d, vh := fc.mapHeaps(m)
		return assignTarget{kind: "loc", heaps: []string{d, vh}, keys: []string{v.T, v.T}}
	}
	// an lvalue expression
	lv := env.evalLvalue(parseExprOrBail(text))
	if lv.Addr != nil {
		if len(lv.Addr.Path) > 0 || lv.Addr.Root == rootElem {
			bail("assigns: unsupported lvalue %s", text)
		}
		return assignTarget{kind: "loc", heaps: []string{lv.Addr.Heap}, keys: []string{lv.Addr.Key}}
	}
	// pointer to struct: all leaves
	pt, ok := lv.Typ.Underlying().(*types.Pointer)
	if !ok {
		bail("assigns: unsupported lvalue %s", text)
	}
	et := pt.Elem()
	if isStruct(et) {
		var tg assignTarget
		tg.kind = "loc"
		fc.structLocs(lv.T, et, &tg)
		return tg
	}
	return assignTarget{kind: "loc", heaps: []string{fc.cellHeap(et)}, keys: []string{lv.T}}
}

func (fc *fnCtx) structLocs(ref string, t types.Type, tg *assignTarget) {
	si := fc.so.structOf(t)
	for i := 0; i < si.st.NumFields(); i++ {
		ft := si.st.Field(i).Type()
		if isStruct(ft) {
			fc.structLocs(fc.subRef(ref, si, i), ft, tg)
		} else {
			tg.heaps = append(tg.heaps, fc.fieldHeap(si, i))
			tg.keys = append(tg.keys, ref)
		}
	}
}

// callLocWrites: for a call with loop-invariant arguments whose callee lists specific locations in its assigns
// clause, the written (heap, key) pairs evaluated in the current (loop entry) state.
func (fc *fnCtx) callLocWrites(c *ssa.CallCommon, blocks map[*ssa.BasicBlock]bool) (locs map[string][]string, ok bool) {
	defer func() {
		if e := recover(); e != nil {
			if _, isU := e.(unsupported); isU {
				locs, ok = nil, false
				return
			}
			panic(e)
		}
	}()
	if _, isB := c.Value.(*ssa.Builtin); isB {
		return nil, false
	}
	ce := fc.resolveCallee(c)
	if ce == nil || ce.con == nil || !ce.con.HasAssign || fc.curLoopState == nil {
		return nil, false
	}
	var args []Val
	dummyArg := func(t types.Type) Val { return Val{T: "dummy!arg", Sort: fc.so.sortOf(t), Typ: t} }
	if c.IsInvoke() {
		if fc.definedOutside(c.Value, blocks) {
			args = append(args, fc.get(c.Value))
		} else {
			args = append(args, dummyArg(c.Value.Type()))
		}
	}
	for _, a := range c.Args {
		if !fc.definedOutside(a, blocks) {
			args = append(args, dummyArg(a.Type()))
			continue
		}
		v, have := fc.vals[a]
		if !have {
			switch a.(type) {
			case *ssa.Const, *ssa.Global, *ssa.Function:
				v = fc.get(a)
			default:
				args = append(args, dummyArg(a.Type()))
				continue
			}
		}
		if v.Addr != nil {
			args = append(args, dummyArg(a.Type()))
			continue
		}
		args = append(args, v)
	}
	if len(args) != len(ce.params) {
		return nil, false
	}
	env := &Env{fc: fc, st: fc.curLoopState, old: fc.curLoopState, pkg: ce.pkg, vars: map[string]Val{}}
	for i, n := range ce.params {
		a := args[i]
		if a.Typ == nil {
			a.Typ = ce.ptypes[i]
		}
		env.vars[n] = a
	}
	locs = map[string][]string{}
	for _, a := range ce.con.Assigns {
		tg := fc.assignTarget(env, a)
		if tg.kind != "loc" {
			return nil, false
		}
		for i, h := range tg.heaps {
			if strings.Contains(tg.keys[i], "dummy!arg") {
				return nil, false // the location depends on a loop-varying argument
			}
			locs[h] = append(locs[h], tg.keys[i])
		}
	}
	return locs, true
}

// callWrites adds the heaps a call may write (static approximation for loop havoc).
func (fc *fnCtx) callWrites(c *ssa.CallCommon, names map[string]bool) (all bool) {
	if b, ok := c.Value.(*ssa.Builtin); ok {
		switch b.Name() {
		case "append", "copy":
			if sl, ok := c.Args[0].Type().Underlying().(*types.Slice); ok {
				names[fc.elemHeap(sl.Elem())] = true
			}
		case "delete", "clear":
			if m, ok := c.Args[0].Type().Underlying().(*types.Map); ok {
				d, v := fc.mapHeaps(m)
				names[d], names[v] = true, true
			} else {
				return true
			}
		}
		return false
	}
	ce := fc.resolveCallee(c)
	if ce == nil {
		ce = fc.funcTypeCallee(c)
	}
	if ce == nil {
		return true
	}
	if ce.external && strings.HasPrefix(ce.name, "sync/atomic.") && len(c.Args) > 0 {
		if strings.Contains(ce.name, "Load") {
			return false
		}
		return !fc.staticTargets(c.Args[0], names)
	}
	con := ce.con
	if con == nil {
		con = fc.g.defaultContract(ce)
	}
	if con == nil {
		return true
	}
	if con.Pure || con.ReadOnly {
		return false
	}
	if !con.HasAssign {
		return true
	}
	// evaluate targets in a scratch environment with dummy argument values
	env := &Env{fc: fc, st: fc.entry, old: fc.entry, pkg: ce.pkg, vars: map[string]Val{}}
	for i, n := range ce.params {
		env.vars[n] = Val{T: "dummy", Sort: fc.so.sortOf(ce.ptypes[i]), Typ: ce.ptypes[i]}
	}
	for _, a := range con.Assigns {
		tg := fc.assignTarget(env, a)
		if tg.kind == "except" {
			// everything but the listed heaps: remembered so that a loop around the call keeps them
			fc.exceptKeeps = append(fc.exceptKeeps, tg.heaps)
			continue
		}
		if tg.kind == "everything" {
			return true
		}
		for _, h := range tg.heaps {
			names[h] = true
		}
	}
	return false
}

// ---------------------------------------------------------------------------
// builtins

func (fc *fnCtx) doBuiltin(ins *ssa.Call, b *ssa.Builtin, st *State) {
	c := ins.Common()
	arg := func(i int) Val { return fc.get(c.Args[i]) }
	switch b.Name() {
	case "len":
		x := arg(0)
		switch u := c.Args[0].Type().Underlying().(type) {
		case *types.Slice:
			fc.define(ins, App("slen", x.T), ins.Type())
		case *types.Basic:
			fc.define(ins, App("str.len", x.T), ins.Type())
		case *types.Map:
			fc.define(ins, fc.mapLen(st, x.T, u), ins.Type())
		case *types.Array:
			fc.define(ins, fmt.Sprint(u.Len()), ins.Type())
		case *types.Pointer:
			fc.define(ins, fmt.Sprint(u.Elem().Underlying().(*types.Array).Len()), ins.Type())
		default:
			bail("len of %s", typeKey(c.Args[0].Type()))
		}
	case "cap":
		x := arg(0)
		if _, ok := c.Args[0].Type().Underlying().(*types.Slice); ok {
			fc.define(ins, App("scap", x.T), ins.Type())
		} else {
			bail("cap of %s", typeKey(c.Args[0].Type()))
		}
	case "append":
		fc.doAppend(ins, st)
	case "copy":
		fc.doCopy(ins, st)
	case "delete":
		m := arg(0)
		k := arg(1)
		mt := c.Args[0].Type().Underlying().(*types.Map)
		d, _ := fc.mapHeaps(mt)
		hd := fc.H(st, d)
		// delete on nil map is a no-op
		fc.setH(st, d, Ite(Eq(m.T, "nilR"), hd, Store(hd, m.T, Store(Select(hd, m.T), k.T, "false"))))
	case "print", "println":
	case "recover":
		fc.vals[ins] = Val{T: "nilI", Sort: "Iface", Typ: ins.Type()}
		fc.note("recover() modelled as returning nil (no panic in flight)")
	case "min", "max":
		x, y := arg(0), arg(1)
		if len(c.Args) != 2 || x.Sort != "Int" {
			bail("min/max arity/sort")
		}
		if b.Name() == "min" {
			fc.define(ins, Ite(App("<=", x.T, y.T), x.T, y.T), ins.Type())
		} else {
			fc.define(ins, Ite(App(">=", x.T, y.T), x.T, y.T), ins.Type())
		}
	default:
		bail("builtin %s", b.Name())
	}
}

func (fc *fnCtx) mapLen(st *State, m string, mt *types.Map) string {
	d, _ := fc.mapHeaps(mt)
	ks := fc.so.sortOf(mt.Key())
	sym := Sym("maplen!" + ks)
	fc.sc.Decl(sym, []string{"(Array " + ks + " Bool)"}, "Int")
	t := Ite(Eq(m, "nilR"), "0", App(sym, Select(fc.H(st, d), m)))
	fc.sc.Axiom(App("<=", "0", App(sym, Select(fc.H(st, d), m))))
	return t
}

// doAppend models append(s, t...).
func (fc *fnCtx) doAppend(ins *ssa.Call, st *State) {
	c := ins.Common()
	s := fc.get(c.Args[0])
	t := fc.get(c.Args[1])
	sl := c.Args[0].Type().Underlying().(*types.Slice)
	et := sl.Elem()
	if _, ok := c.Args[1].Type().Underlying().(*types.Basic); ok {
		// append([]byte, string...)
		fc.havocHeap(st, fc.elemHeap(et))
		fc.vals[ins] = fc.freshVal(st, "appstr", ins.Type())
		return
	}
	h := fc.elemHeap(et)
	H := fc.H(st, h)
	n, k := App("slen", s.T), App("slen", t.T)
	// statically known small k?
	kc := int64(-1)
	if sli, ok := c.Args[1].(*ssa.Slice); ok {
		if pt, ok := sli.X.Type().Underlying().(*types.Pointer); ok {
			if arr, ok := pt.Elem().Underlying().(*types.Array); ok && sli.Low == nil && sli.High == nil {
				kc = arr.Len()
			}
		}
	}
	if cst, ok := c.Args[1].(*ssa.Const); ok && cst.Value == nil {
		kc = 0
	}
	es := fc.so.sortOf(et)
	arrSort := "(Array Int " + es + ")"
	oldArr := Select(H, App("sarr", s.T))
	srcArr := Select(H, App("sarr", t.T))
	fits := App("<=", App("+", n, k), App("scap", s.T))
	r := fc.newRef(st)
	// new content array
	var inplace, fresh string
	if kc >= 0 && kc <= 8 {
		inplace = oldArr
		fresh = fc.sc.Fresh("apparr")
		fc.sc.Decl(fresh, nil, arrSort)
		var cs []string
		freshT := fresh
		for j := int64(0); j < kc; j++ {
			e := Select(srcArr, App("+", App("soff", t.T), fmt.Sprint(j)))
			inplace = Store(inplace, App("+", App("soff", s.T), n, fmt.Sprint(j)), e)
			cs = append(cs, Eq(Select(fresh, App("+", n, fmt.Sprint(j))), e))
		}
		// prefix copied: forall i in [0,n): fresh[i] = old[off+i]
		cs = append(cs, fmt.Sprintf("(forall ((i Int)) (! (=> (and (<= 0 i) (< i %s)) (= (select %s i) (select %s (+ %s i)))) :pattern ((select %s i))))", n, fresh, oldArr, App("soff", s.T), fresh))
		fc.assume(st, And(cs...))
		_ = freshT
	} else {
		ip := fc.sc.Fresh("apparr.ip")
		fc.sc.Decl(ip, nil, arrSort)
		fresh = fc.sc.Fresh("apparr")
		fc.sc.Decl(fresh, nil, arrSort)
		off := App("soff", s.T)
		toff := App("soff", t.T)
		fc.assume(st, And(
			fmt.Sprintf("(forall ((i Int)) (! (= (select %s i) (ite (and (<= (+ %s %s) i) (< i (+ %s %s %s))) (select %s (+ %s (- i (+ %s %s)))) (select %s i))) :pattern ((select %s i))))", ip, off, n, off, n, k, srcArr, toff, off, n, oldArr, ip),
			fmt.Sprintf("(forall ((i Int)) (! (=> (and (<= 0 i) (< i %s)) (= (select %s i) (select %s (+ %s i)))) :pattern ((select %s i))))", n, fresh, oldArr, off, fresh),
			fmt.Sprintf("(forall ((i Int)) (! (=> (and (<= %s i) (< i (+ %s %s))) (= (select %s i) (select %s (+ %s (- i %s))))) :pattern ((select %s i))))", n, n, k, fresh, srcArr, toff, n, fresh),
		))
		inplace = ip
	}
	newcap := fc.sc.Fresh("appcap")
	fc.sc.Decl(newcap, nil, "Int")
	fc.assume(st, App("<=", App("+", n, k), newcap))
	// appending nothing to a nil slice yields nil; otherwise:
	res := Ite(fits,
		App("mkS", App("sarr", s.T), App("soff", s.T), App("+", n, k), App("scap", s.T)),
		App("mkS", r, "0", App("+", n, k), newcap))
	res = Ite(And(Eq(k, "0")), s.T, res)
	fc.setH(st, h, Ite(Eq(k, "0"), H, Ite(fits, Store(H, App("sarr", s.T), inplace), Store(H, r, fresh))))
	fc.define(ins, res, ins.Type())
}

func (fc *fnCtx) doCopy(ins *ssa.Call, st *State) {
	c := ins.Common()
	dst := fc.get(c.Args[0])
	src := fc.get(c.Args[1])
	sl, ok := c.Args[0].Type().Underlying().(*types.Slice)
	if !ok {
		bail("copy to non-slice")
	}
	if _, ok := c.Args[1].Type().Underlying().(*types.Slice); !ok {
		fc.havocHeap(st, fc.elemHeap(sl.Elem()))
		fc.vals[ins] = fc.freshVal(st, "copyn", ins.Type())
		return
	}
	et := sl.Elem()
	h := fc.elemHeap(et)
	H := fc.H(st, h)
	es := fc.so.sortOf(et)
	n := Ite(App("<=", App("slen", dst.T), App("slen", src.T)), App("slen", dst.T), App("slen", src.T))
	nS := fc.sc.Fresh("copyn")
	fc.sc.Def(nS, "Int", n)
	newArr := fc.sc.Fresh("copyarr")
	fc.sc.Decl(newArr, nil, "(Array Int "+es+")")
	dArr := Select(H, App("sarr", dst.T))
	sArr := Select(H, App("sarr", src.T))
	doff, soff := App("soff", dst.T), App("soff", src.T)
	// memmove semantics: reads happen from the pre-state array
	fc.assume(st, fmt.Sprintf("(forall ((i Int)) (! (= (select %s i) (ite (and (<= %s i) (< i (+ %s %s))) (select %s (+ %s (- i %s))) (select %s i))) :pattern ((select %s i))))",
		newArr, doff, doff, nS, sArr, soff, doff, dArr, newArr))
	fc.setH(st, h, Ite(Eq(nS, "0"), H, Store(H, App("sarr", dst.T), newArr)))
	fc.define(ins, nS, ins.Type())
}

// ---------------------------------------------------------------------------
// defers: only unconditional defers outside loops are supported; they run at RunDefers.

func (fc *fnCtx) doDefer(ins *ssa.Defer, st *State) {
	if ins.Block() != fc.fn.Blocks[0] {
		for h, li := range fc.loops {
			_ = h
			if li.body[ins.Block()] {
				bail("defer inside a loop")
			}
		}
		bail("conditional defer")
	}
	// evaluate arguments now
	c := ins.Common()
	var args []Val
	if c.IsInvoke() {
		args = append(args, fc.get(c.Value))
	}
	for _, a := range c.Args {
		args = append(args, fc.get(a))
	}
	fc.deferred = append(fc.deferred, ins)
	fc.deferArgs = append(fc.deferArgs, args)
}

func (fc *fnCtx) runDefers(st *State) {
	for i := len(fc.deferred) - 1; i >= 0; i-- {
		d := fc.deferred[i]
		c := d.Common()
		if b, ok := c.Value.(*ssa.Builtin); ok {
			bail("deferred builtin %s", b.Name())
		}
		ce := fc.resolveCallee(c)
		fc.applyCall(st, ce, c, fc.deferArgs[i], d.Pos(), ce0sigResults(c))
	}
}

func ce0sigResults(c *ssa.CallCommon) types.Type {
	return c.Signature().Results()
}
