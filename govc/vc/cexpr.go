package vc

import (
	"fmt"
	"go/ast"
	"go/constant"
	"go/parser"
	"go/token"
	"go/types"
	"math/big"
	"os"
	"strconv"
	"strings"
)

// Env is the evaluation environment of a contract expression.
type Env struct {
	fc         *fnCtx
	st         *State // state in which heap reads happen
	old        *State // state for old(...)
	pkg        *types.Package
	vars       map[string]Val
	results    []Val
	loopVars   map[string]Val
	pureCtx    bool
	unfold     int
	useLocals  bool // identifiers may refer to source-level locals (loop invariants)
	macroDepth int
	quantFacts bool      // inside a quantifier body: side facts are collected for the enclosing quantifier
	assuming   bool      // the clause is being assumed (side facts are conjoined) rather than proved (side facts are hypotheses)
	factsP     *[]string // side facts (allocatedness of values read from the heap), assumed with the clause
}

func (fc *fnCtx) envAt(st, old *State) *Env {
	if old == nil {
		old = st
	}
	e := &Env{fc: fc, st: st, old: old, pkg: fc.fn.Pkg.Pkg, vars: fc.params}
	return e
}

type astExpr = ast.Expr

func parseExprOrBail(s string) ast.Expr {
	e, err := parser.ParseExpr(s)
	if err != nil {
		panic(fmt.Errorf("contract syntax error in %q: %v", s, err))
	}
	return e
}

// evalClause evaluates a Boolean clause (with top-level ==>).
func (fc *fnCtx) evalClause(env *Env, c Clause) (res string) {
	defer func() {
		if e := recover(); e != nil {
			if u, ok := e.(unsupported); ok {
				panic(fmt.Errorf("%s:%d: %s: in clause %q", c.File, c.Line, u.msg, c.Text))
			}
			if err, ok := e.(error); ok {
				panic(fmt.Errorf("%s:%d: %v: in clause %q", c.File, c.Line, err, c.Text))
			}
			panic(e)
		}
	}()
	if env.factsP == nil {
		env.factsP = new([]string)
	}
	*env.factsP = (*env.factsP)[:0]
	t := env.evalBoolText(c.Text)
	if len(*env.factsP) > 0 && env.st != nil && !env.pureCtx {
		fc.assume(env.st, And(*env.factsP...))
	}
	return t
}

// evalAssume evaluates a clause that is going to be assumed.
func (fc *fnCtx) evalAssume(env *Env, c Clause) string {
	env.assuming = true
	defer func() { env.assuming = false }()
	return fc.evalClause(env, c)
}

func (env *Env) evalBoolText(text string) string {
	parts := splitImplies(text)
	last := env.evalBool(parseExprOrBail(parts[len(parts)-1]))
	for i := len(parts) - 2; i >= 0; i-- {
		last = Imp(env.evalBool(parseExprOrBail(parts[i])), last)
	}
	return last
}

func (fc *fnCtx) evalExpr(env *Env, text string) Val {
	return env.eval(parseExprOrBail(text))
}

func (env *Env) evalBool(e ast.Expr) string {
	v := env.eval(e)
	if v.Sort != "Bool" {
		bail("expected Bool, got %s in %s", v.Sort, exprStr(e))
	}
	return v.T
}

func exprStr(e ast.Expr) string {
	return types.ExprString(e)
}

func boolVal(t string) Val { return Val{T: t, Sort: "Bool", Typ: types.Typ[types.Bool]} }
func intVal(t string) Val  { return Val{T: t, Sort: "Int", Typ: types.Typ[types.Int]} }

// lookupPkg finds an imported package by local name.
func (env *Env) lookupPkg(name string) *types.Package {
	if env.pkg == nil {
		return nil
	}
	if env.pkg.Name() == name {
		return env.pkg
	}
	for _, imp := range env.pkg.Imports() {
		if imp.Name() == name {
			return imp
		}
	}
	// search transitively (spec files may mention packages not imported directly)
	if p := env.fc.g.pkgByName[name]; p != nil {
		return p
	}
	return nil
}

func (env *Env) resolveType(e ast.Expr) types.Type {
	switch e := e.(type) {
	case *ast.ParenExpr:
		return env.resolveType(e.X)
	case *ast.StarExpr:
		return types.NewPointer(env.resolveType(e.X))
	case *ast.ArrayType:
		if e.Len == nil {
			return types.NewSlice(env.resolveType(e.Elt))
		}
	case *ast.MapType:
		return types.NewMap(env.resolveType(e.Key), env.resolveType(e.Value))
	case *ast.InterfaceType:
		if e.Methods == nil || len(e.Methods.List) == 0 {
			return types.NewInterfaceType(nil, nil)
		}
	case *ast.Ident:
		if env.pkg != nil {
			if o := env.pkg.Scope().Lookup(e.Name); o != nil {
				if tn, ok := o.(*types.TypeName); ok {
					return tn.Type()
				}
			}
		}
		if o := types.Universe.Lookup(e.Name); o != nil {
			if tn, ok := o.(*types.TypeName); ok {
				return tn.Type()
			}
		}
	case *ast.SelectorExpr:
		if id, ok := e.X.(*ast.Ident); ok {
			if p := env.lookupPkg(id.Name); p != nil {
				if o := p.Scope().Lookup(e.Sel.Name); o != nil {
					if tn, ok := o.(*types.TypeName); ok {
						return tn.Type()
					}
				}
			}
		}
	}
	bail("cannot resolve type %s", exprStr(e))
	return nil
}

func (env *Env) constVal(c constant.Value, t types.Type) Val {
	fc := env.fc
	switch c.Kind() {
	case constant.Bool:
		if constant.BoolVal(c) {
			return boolVal("true")
		}
		return boolVal("false")
	case constant.String:
		return Val{T: StrLit(constant.StringVal(c)), Sort: "String", Typ: t}
	case constant.Int:
		bi, _ := new(big.Int).SetString(c.ExactString(), 10)
		if t == nil || fc.so.sortOf(t) != "Int" {
			t = types.Typ[types.Int]
		}
		return Val{T: BigLit(bi), Sort: "Int", Typ: t}
	}
	bail("unsupported constant %s", c.ExactString())
	return Val{}
}

// eval evaluates a contract expression. Values read from the heap carry their
// type invariant (every Go heap holds well-typed values) as a background fact.
func (env *Env) eval(e ast.Expr) Val {
	v := env.eval0(e)
	switch e.(type) {
	case *ast.SelectorExpr, *ast.IndexExpr, *ast.StarExpr:
		if v.Typ != nil && v.T != "" && (env.fc.inQuant == 0 || env.quantFacts) && v.Addr == nil {
			if env.factsP != nil && env.st != nil && env.st.alloc != "" {
				switch v.Sort {
				case "Ref":
					*env.factsP = append(*env.factsP, App("<", App("ageR", v.T), env.st.alloc))
				case "Iface":
					*env.factsP = append(*env.factsP, App("<", App("ageR", App("iref", v.T)), env.st.alloc))
				case "Slice":
					*env.factsP = append(*env.factsP, App("<", App("ageR", App("sarr", v.T)), env.st.alloc))
				}
			}
			// the invariant holds for values of reachable states only: it travels with the clause
			// (assumed on the reach chain), never as an unconditional background fact
			if inv := env.fc.typeInvTry(v.Typ, v.T); inv != "true" && inv != "" {
				if env.factsP != nil {
					*env.factsP = append(*env.factsP, inv)
				} else if env.st != nil && env.fc.inQuant == 0 {
					key := "inv:" + env.st.reach + ":" + v.T
					if !env.fc.pureDone[key] {
						env.fc.pureDone[key] = true
						env.fc.sc.Axiom(Imp(env.st.reach, inv))
					}
				}
			}
		}
	}
	return v
}

func (fc *fnCtx) typeInvTry(t types.Type, v string) (r string) {
	defer func() {
		if e := recover(); e != nil {
			if _, ok := e.(unsupported); ok {
				r = ""
				return
			}
			panic(e)
		}
	}()
	return fc.so.typeInv(t, v)
}

func (env *Env) eval0(e ast.Expr) Val {
	fc := env.fc
	switch e := e.(type) {
	case *ast.ParenExpr:
		return env.eval(e.X)
	case *ast.BasicLit:
		switch e.Kind {
		case token.INT:
			bi, ok := new(big.Int).SetString(e.Value, 0)
			if !ok {
				bail("bad int literal %s", e.Value)
			}
			return intVal(BigLit(bi))
		case token.STRING:
			s, err := strconv.Unquote(e.Value)
			if err != nil {
				bail("bad string literal")
			}
			return Val{T: StrLit(s), Sort: "String", Typ: types.Typ[types.String]}
		case token.CHAR:
			s, _, _, err := strconv.UnquoteChar(e.Value[1:len(e.Value)-1], '\'')
			if err != nil {
				bail("bad char literal")
			}
			return intVal(fmt.Sprint(int(s)))
		}
		bail("literal %s", e.Value)
	case *ast.Ident:
		return env.evalIdent(e)
	case *ast.SelectorExpr:
		return env.evalSelector(e)
	case *ast.StarExpr:
		p := env.eval(e.X)
		return fc.deref(env.st, p)
	case *ast.UnaryExpr:
		x := env.eval(e.X)
		switch e.Op {
		case token.NOT:
			return boolVal(Not(x.T))
		case token.SUB:
			return Val{T: App("-", x.T), Sort: x.Sort, Typ: x.Typ}
		}
		bail("unary %s", e.Op)
	case *ast.BinaryExpr:
		return env.evalBinary(e)
	case *ast.IndexExpr:
		if sel, ok := e.X.(*ast.SelectorExpr); ok && sel.Sel.Name == "Typ" {
			if id, ok := sel.X.(*ast.Ident); ok {
				if p := env.lookupPkg(id.Name); p != nil && p.Path() == "go/types" {
					return fc.typesTyp(env.st, env.eval(e.Index), token.NoPos)
				}
			}
		}
		x := env.eval(e.X)
		i := env.eval(e.Index)
		if x.Typ == nil {
			bail("index of untyped value")
		}
		switch u := x.Typ.Underlying().(type) {
		case *types.Slice:
			return Val{T: fc.sliceElem(env.st, x.T, u.Elem(), i.T), Sort: fc.so.sortOf(u.Elem()), Typ: u.Elem()}
		case *types.Array:
			return Val{T: Select(x.T, i.T), Sort: fc.so.sortOf(u.Elem()), Typ: u.Elem()}
		case *types.Pointer:
			if arr, ok := u.Elem().Underlying().(*types.Array); ok {
				av := fc.deref(env.st, x)
				return Val{T: Select(av.T, i.T), Sort: fc.so.sortOf(arr.Elem()), Typ: arr.Elem()}
			}
		case *types.Map:
			// m[k] yields the zero value for absent keys (and for a nil map)
			dh, vh := fc.mapHeaps(u)
			in := And(Not(Eq(x.T, "nilR")), Select(Select(fc.H(env.st, dh), x.T), i.T))
			return Val{T: Ite(in, Select(Select(fc.H(env.st, vh), x.T), i.T), fc.so.zero(u.Elem())), Sort: fc.so.sortOf(u.Elem()), Typ: u.Elem()}
		case *types.Basic:
			return intVal(App("str.to_code", App("str.at", x.T, i.T)))
		}
		bail("index of %s", typeKey(x.Typ))
	case *ast.SliceExpr:
		x := env.eval(e.X)
		if x.Sort == "String" {
			lo := "0"
			if e.Low != nil {
				lo = env.eval(e.Low).T
			}
			hi := App("str.len", x.T)
			if e.High != nil {
				hi = env.eval(e.High).T
			}
			return Val{T: App("str.substr", x.T, lo, App("-", hi, lo)), Sort: "String", Typ: x.Typ}
		}
		bail("slice expression on %s", x.Sort)
	case *ast.TypeAssertExpr:
		x := env.eval(e.X)
		t := env.resolveType(e.Type)
		if types.IsInterface(t) {
			return Val{T: x.T, Sort: "Iface", Typ: t}
		}
		u := fc.so.unboxTry(t, App("iref", x.T))
		if u == "" {
			bail("cannot unbox %s", typeKey(t))
		}
		return Val{T: u, Sort: fc.so.sortOf(t), Typ: t}
	case *ast.CallExpr:
		return env.evalCall(e)
	}
	bail("unsupported contract expression %s", exprStr(e))
	return Val{}
}

func (env *Env) evalIdent(e *ast.Ident) Val {
	fc := env.fc
	switch e.Name {
	case "true":
		return boolVal("true")
	case "false":
		return boolVal("false")
	case "nil":
		return Val{T: "nil", Sort: "nil"}
	case "result":
		if v, ok := env.loopVars["result"]; ok {
			return v // a source-level variable named result (loop invariants)
		}
		if len(env.results) < 1 {
			bail("no result in this context")
		}
		return env.results[0]
	}
	if strings.HasPrefix(e.Name, "result") {
		if n, err := strconv.Atoi(e.Name[6:]); err == nil {
			if n >= len(env.results) {
				bail("no %s", e.Name)
			}
			return env.results[n]
		}
	}
	if v, ok := env.loopVars[e.Name]; ok {
		return v
	}
	if env.useLocals && env.st != nil {
		// a parameter that the body reassigns denotes its current value in invariants and assertions
		// (entry(x) names the value at entry)
		if _, isParam := fc.params[e.Name]; isParam {
			if w, has := env.st.locals[e.Name]; has && !env.st.localAddr[e.Name] && w.T != "" {
				// (a variable of another type with the same name is a shadowing declaration, e.g. the variable of
				// a type switch, not a reassignment of the parameter)
				if pv, ok := env.vars[e.Name]; ok && pv.T != w.T && pv.Typ != nil && w.Typ != nil && types.Identical(pv.Typ, w.Typ) && pv.Sort == w.Sort {
					return w
				}
			}
		}
	}
	if v, ok := env.vars[e.Name]; ok {
		return v
	}
	if env.useLocals {
		v, ok := fc.locals[e.Name]
		isAddr := fc.localIsAddr[e.Name]
		if env.st != nil {
			// the value the variable has at this program point, when the flow determines it
			if w, has := env.st.locals[e.Name]; has {
				v, ok, isAddr = w, true, env.st.localAddr[e.Name]
			}
		}
		if ok {
			if isAddr {
				// an addressable local: structs stay references (selector bases), scalars are loaded
				if pt, ok := v.Typ.Underlying().(*types.Pointer); ok && !isStruct(pt.Elem()) {
					return fc.deref(env.st, v)
				}
			}
			return v
		}
	}
	if env.pkg != nil {
		if o := env.pkg.Scope().Lookup(e.Name); o != nil {
			return env.objVal(o)
		}
	}
	if o := types.Universe.Lookup(e.Name); o != nil {
		if c, ok := o.(*types.Const); ok {
			return env.constVal(c.Val(), c.Type())
		}
	}
	_ = fc
	bail("unknown identifier %s", e.Name)
	return Val{}
}

func (env *Env) objVal(o types.Object) Val {
	fc := env.fc
	switch o := o.(type) {
	case *types.Const:
		return env.constVal(o.Val(), o.Type())
	case *types.Var:
		// package-level variable: load it
		g := fc.g.globalOf(o)
		if g == nil {
			bail("no ssa global for %s", o.Name())
		}
		if v, ok := fc.globalInit(g, env.st); ok {
			return v
		}
		return fc.deref(env.st, Val{T: fc.globalRef(g), Sort: "Ref", Typ: g.Type()})
	}
	bail("unsupported object %s", o.Name())
	return Val{}
}

func (env *Env) evalSelector(e *ast.SelectorExpr) Val {
	fc := env.fc
	if id, ok := e.X.(*ast.Ident); ok {
		if _, isVar := env.vars[id.Name]; !isVar {
			if _, isLoop := env.loopVars[id.Name]; !isLoop {
				if p := env.lookupPkg(id.Name); p != nil && (env.pkg == nil || env.pkg.Scope().Lookup(id.Name) == nil) {
					o := p.Scope().Lookup(e.Sel.Name)
					if o == nil {
						bail("no %s.%s", id.Name, e.Sel.Name)
					}
					return env.objVal(o)
				}
			}
		}
	}
	x := env.evalBase(e.X)
	if x.Typ == nil {
		bail("selector on untyped value %s", exprStr(e))
	}
	return fc.selectField(env.st, x, e.Sel.Name, env.pkg, false)
}

// evalBase evaluates the base of a selector; nested struct fields reached
// through pointers are kept as references instead of being loaded.
func (env *Env) evalBase(e ast.Expr) Val {
	switch b := e.(type) {
	case *ast.ParenExpr:
		return env.evalBase(b.X)
	case *ast.SelectorExpr:
		if id, ok := b.X.(*ast.Ident); ok {
			if _, isVar := env.vars[id.Name]; !isVar {
				if _, isLoop := env.loopVars[id.Name]; !isLoop {
					if p := env.lookupPkg(id.Name); p != nil && (env.pkg == nil || env.pkg.Scope().Lookup(id.Name) == nil) {
						return env.eval(e)
					}
				}
			}
		}
		x := env.evalBase(b.X)
		if x.Typ == nil {
			return env.eval(e)
		}
		if _, isPtr := x.Typ.Underlying().(*types.Pointer); isPtr {
			// is the selected field a struct? then keep its address
			obj, _, _ := types.LookupFieldOrMethod(x.Typ, true, env.pkg, b.Sel.Name)
			if obj == nil {
				obj, _ = lookupFieldAnyPkg(x.Typ, b.Sel.Name)
			}
			if v, ok := obj.(*types.Var); ok && isStruct(v.Type()) {
				return env.fc.selectField(env.st, x, b.Sel.Name, env.pkg, true)
			}
		}
		return env.fc.selectField(env.st, x, b.Sel.Name, env.pkg, false)
	}
	return env.eval(e)
}

// selectField evaluates x.name (fields only), following embedded fields and pointers.
func (fc *fnCtx) selectField(st *State, x Val, name string, pkg *types.Package, wantAddr bool) Val {
	obj, index, _ := types.LookupFieldOrMethod(x.Typ, true, pkg, name)
	if obj == nil {
		// unexported field of another package: search manually
		obj, index = lookupFieldAnyPkg(x.Typ, name)
	}
	v, ok := obj.(*types.Var)
	if !ok || v == nil {
		bail("no field %s in %s", name, typeKey(x.Typ))
	}
	cur := x
	for k, fi := range index {
		last := k == len(index)-1
		switch u := cur.Typ.Underlying().(type) {
		case *types.Pointer:
			st0 := u.Elem()
			a := fc.fieldAddr(cur, st0, fi)
			if last && wantAddr {
				return a
			}
			if a.Addr != nil {
				cur = fc.loadAddr(st, a.Addr)
			} else {
				// nested struct ref: keep as pointer
				cur = a
				if last {
					// value of a nested struct
					return fc.deref(st, a)
				}
			}
		case *types.Struct:
			si := fc.so.structOf(cur.Typ)
			ft := si.st.Field(fi).Type()
			if last && wantAddr {
				bail("address of field of struct value")
			}
			cur = Val{T: App(si.fields[fi], cur.T), Sort: fc.so.sortOf(ft), Typ: ft}
		default:
			bail("field selection on %s", typeKey(cur.Typ))
		}
	}
	return cur
}

func lookupFieldAnyPkg(t types.Type, name string) (types.Object, []int) {
	if p, ok := t.Underlying().(*types.Pointer); ok {
		t = p.Elem()
	}
	st, ok := t.Underlying().(*types.Struct)
	if !ok {
		return nil, nil
	}
	for i := 0; i < st.NumFields(); i++ {
		if st.Field(i).Name() == name {
			return st.Field(i), []int{i}
		}
	}
	for i := 0; i < st.NumFields(); i++ {
		if st.Field(i).Embedded() {
			if o, idx := lookupFieldAnyPkg(st.Field(i).Type(), name); o != nil {
				return o, append([]int{i}, idx...)
			}
		}
	}
	return nil, nil
}

// evalLvalue evaluates an assigns target to an address.
func (env *Env) evalLvalue(e ast.Expr) Val {
	fc := env.fc
	switch e := e.(type) {
	case *ast.ParenExpr:
		return env.evalLvalue(e.X)
	case *ast.SelectorExpr:
		x := env.eval(e.X)
		if x.Typ == nil {
			bail("assigns: untyped base")
		}
		// x must be (or auto-deref to) a pointer to struct
		if _, ok := x.Typ.Underlying().(*types.Struct); ok {
			// base is itself a nested struct lvalue
			bx := env.evalLvalue(e.X)
			return fc.selectField(env.st, bx, e.Sel.Name, env.pkg, true)
		}
		return fc.selectField(env.st, x, e.Sel.Name, env.pkg, true)
	case *ast.StarExpr:
		return env.eval(e.X)
	case *ast.Ident:
		v := env.eval(e)
		return v
	}
	bail("unsupported lvalue %s", exprStr(e))
	return Val{}
}

func (env *Env) coerceNil(a, b Val) (Val, Val) {
	fc := env.fc
	if a.Sort == "nil" && b.Sort != "nil" {
		a = Val{T: nilOfSort(b.Sort), Sort: b.Sort, Typ: b.Typ}
	} else if b.Sort == "nil" && a.Sort != "nil" {
		b = Val{T: nilOfSort(a.Sort), Sort: a.Sort, Typ: a.Typ}
	}
	// typed pointer compared with interface: box it
	if a.Sort == "Iface" && b.Sort == "Ref" && b.Typ != nil {
		b = fc.makeIface(env.st, b, b.Typ, a.Typ)
	} else if b.Sort == "Iface" && a.Sort == "Ref" && a.Typ != nil {
		a = fc.makeIface(env.st, a, a.Typ, b.Typ)
	}
	return a, b
}

func nilOfSort(s string) string {
	switch s {
	case "Ref":
		return "nilR"
	case "Iface":
		return "nilI"
	case "Slice":
		return "nilS"
	}
	bail("nil of sort %s", s)
	return ""
}

func (env *Env) evalBinary(e *ast.BinaryExpr) Val {
	switch e.Op {
	case token.LAND:
		return boolVal(And(env.evalBool(e.X), env.evalBool(e.Y)))
	case token.LOR:
		return boolVal(Or(env.evalBool(e.X), env.evalBool(e.Y)))
	}
	x, y := env.eval(e.X), env.eval(e.Y)
	switch e.Op {
	case token.EQL, token.NEQ:
		x, y = env.coerceNil(x, y)
		if x.Sort != y.Sort {
			bail("comparing %s with %s in %s", x.Sort, y.Sort, exprStr(e))
		}
		t := Eq(x.T, y.T)
		if e.Op == token.NEQ {
			t = Not(t)
		}
		return boolVal(t)
	case token.LSS, token.LEQ, token.GTR, token.GEQ:
		if x.Sort == "String" {
			switch e.Op {
			case token.LSS:
				return boolVal(App("str.<", x.T, y.T))
			case token.LEQ:
				return boolVal(App("str.<=", x.T, y.T))
			case token.GTR:
				return boolVal(App("str.<", y.T, x.T))
			default:
				return boolVal(App("str.<=", y.T, x.T))
			}
		}
		if x.Sort != y.Sort {
			if x.Sort == "Int" && y.Sort == "Real" {
				x.T = App("to_real", x.T)
			} else if x.Sort == "Real" && y.Sort == "Int" {
				y.T = App("to_real", y.T)
			} else {
				bail("comparing %s with %s", x.Sort, y.Sort)
			}
		}
		op := map[token.Token]string{token.LSS: "<", token.LEQ: "<=", token.GTR: ">", token.GEQ: ">="}[e.Op]
		return boolVal(App(op, x.T, y.T))
	case token.ADD:
		if x.Sort == "String" {
			return Val{T: App("str.++", x.T, y.T), Sort: "String", Typ: x.Typ}
		}
		return Val{T: App("+", x.T, y.T), Sort: x.Sort, Typ: x.Typ}
	case token.SUB:
		return Val{T: App("-", x.T, y.T), Sort: x.Sort, Typ: x.Typ}
	case token.MUL:
		return Val{T: App("*", x.T, y.T), Sort: x.Sort, Typ: x.Typ}
	case token.QUO:
		if x.Sort == "Real" {
			return Val{T: App("/", x.T, y.T), Sort: x.Sort, Typ: x.Typ}
		}
		return Val{T: goDiv(x.T, y.T), Sort: x.Sort, Typ: x.Typ}
	case token.REM:
		return Val{T: App("-", x.T, App("*", y.T, goDiv(x.T, y.T))), Sort: x.Sort, Typ: x.Typ}
	case token.AND:
		if c, err := strconv.ParseInt(y.T, 10, 64); err == nil && c >= 0 {
			return Val{T: bitAndConst(x.T, c), Sort: "Int", Typ: x.Typ}
		}
		return Val{T: App("int_and", x.T, y.T), Sort: "Int", Typ: x.Typ}
	case token.OR:
		if c, err := strconv.ParseInt(y.T, 10, 64); err == nil && c >= 0 {
			return Val{T: App("-", App("+", x.T, y.T), bitAndConst(x.T, c)), Sort: "Int", Typ: x.Typ}
		}
		return Val{T: App("int_or", x.T, y.T), Sort: "Int", Typ: x.Typ}
	case token.AND_NOT:
		if c, err := strconv.ParseInt(y.T, 10, 64); err == nil && c >= 0 {
			return Val{T: App("-", x.T, bitAndConst(x.T, c)), Sort: "Int", Typ: x.Typ}
		}
		return Val{T: App("-", x.T, App("int_and", x.T, y.T)), Sort: "Int", Typ: x.Typ}
	case token.XOR:
		return Val{T: App("int_xor", x.T, y.T), Sort: "Int", Typ: x.Typ}
	}
	bail("binary operator %s", e.Op)
	return Val{}
}

func (env *Env) evalCall(e *ast.CallExpr) Val {
	fc := env.fc
	// builtin spec forms
	if id, ok := e.Fun.(*ast.Ident); ok {
		switch id.Name {
		case "old":
			sub := *env
			sub.st = env.old
			return sub.eval(e.Args[0])
		case "len":
			x := env.eval(e.Args[0])
			switch {
			case x.Sort == "Slice":
				return intVal(App("slen", x.T))
			case x.Sort == "String":
				return intVal(App("str.len", x.T))
			}
			if x.Typ != nil {
				switch u := x.Typ.Underlying().(type) {
				case *types.Array:
					return intVal(fmt.Sprint(u.Len()))
				case *types.Map:
					return intVal(fc.mapLen(env.st, x.T, u))
				}
			}
			bail("len of %s", x.Sort)
		case "cap":
			x := env.eval(e.Args[0])
			return intVal(App("scap", x.T))
		case "imp":
			return boolVal(Imp(env.evalBool(e.Args[0]), env.evalBool(e.Args[1])))
		case "iff":
			return boolVal(Eq(env.evalBool(e.Args[0]), env.evalBool(e.Args[1])))
		case "ite":
			c := env.evalBool(e.Args[0])
			a, b := env.eval(e.Args[1]), env.eval(e.Args[2])
			a, b = env.coerceNil(a, b)
			if a.Sort != b.Sort {
				bail("ite branches of different sorts %s %s", a.Sort, b.Sort)
			}
			return Val{T: Ite(c, a.T, b.T), Sort: a.Sort, Typ: a.Typ}
		case "forall", "exists":
			// forall(i, lo, hi, body)
			name := e.Args[0].(*ast.Ident).Name
			lo, hi := env.eval(e.Args[1]), env.eval(e.Args[2])
			bv := fc.sc.Fresh("q." + name)
			bv = strings.Trim(bv, "|")
			bv = Sym(strings.ReplaceAll(bv, "~", "_"))
			sub := *env
			sub.vars = map[string]Val{}
			for k, v := range env.vars {
				sub.vars[k] = v
			}
			sub.vars[name] = intVal(bv)
			fc.inQuant++
			saved := sub.factsP
			local := []string{}
			sub.factsP = &local
			sub.quantFacts = true
			body := sub.evalBool(e.Args[3])
			sub.factsP = saved
			fc.inQuant--
			if len(local) > 0 && saved != nil {
				// facts about values read inside the body hold for every index in range:
				// hand them to the enclosing clause as a universally quantified side fact
				f := Imp(And(App("<=", lo.T, bv), App("<", bv, hi.T)), And(local...))
				if pats := selectPatterns(f, bv); len(pats) > 0 {
					*saved = append(*saved, fmt.Sprintf("(forall ((%s Int)) (! %s :pattern (%s)))", bv, f, pats[0]))
				} else {
					*saved = append(*saved, fmt.Sprintf("(forall ((%s Int)) %s)", bv, f))
				}
			}
			rng := And(App("<=", lo.T, bv), App("<", bv, hi.T))
			// re-anchor the quantifier on the absolute array index of its first slice access, so that the
			// trigger (select arr j) matches any index term (no arithmetic inside the pattern)
			if nb, nbody, nrng, pat, ok := reanchor(fc, body, rng, bv); ok && os.Getenv("GOVC_REANCHOR") != "" {
				if id.Name == "forall" {
					return boolVal(fmt.Sprintf("(forall ((%s Int)) (! %s :pattern (%s)))", nb, Imp(nrng, nbody), pat))
				}
				return boolVal(fmt.Sprintf("(exists ((%s Int)) (! %s :pattern (%s)))", nb, And(nrng, nbody), pat))
			}
			if id.Name == "forall" {
				if pats := selectPatterns(body, bv); len(pats) > 0 && os.Getenv("GOVC_NOPATTERNS") == "" {
					return boolVal(fmt.Sprintf("(forall ((%s Int)) (! %s :pattern (%s)))", bv, Imp(rng, body), pats[0]))
				}
				return boolVal(fmt.Sprintf("(forall ((%s Int)) %s)", bv, Imp(rng, body)))
			}
			if pats := selectPatterns(body, bv); len(pats) > 0 && os.Getenv("GOVC_NOPATTERNS") == "" {
				return boolVal(fmt.Sprintf("(exists ((%s Int)) (! %s :pattern (%s)))", bv, And(rng, body), pats[0]))
			}
			return boolVal(fmt.Sprintf("(exists ((%s Int)) %s)", bv, And(rng, body)))
		case "typeis":
			x := env.eval(e.Args[0])
			t := env.resolveType(e.Args[1])
			if x.Sort != "Iface" {
				bail("typeis on non-interface")
			}
			if types.IsInterface(t) {
				return boolVal(And(Not(Eq(x.T, "nilI")), fc.implements(App("itag", x.T), t)))
			}
			return boolVal(Eq(App("itag", x.T), fc.so.tagTerm(t)))
		case "asI":
			x := env.eval(e.Args[0])
			var it types.Type = types.NewInterfaceType(nil, nil)
			if len(e.Args) > 1 {
				it = env.resolveType(e.Args[1])
			}
			if x.Sort == "Iface" {
				x.Typ = it
				return x
			}
			return fc.makeIface(env.st, x, x.Typ, it)
		case "mkstruct":
			// mkstruct(T, v1, v2, ...): a struct value of type T
			t := env.resolveType(e.Args[0])
			si := fc.so.structOf(t)
			if len(e.Args)-1 != len(si.fields) {
				bail("mkstruct: wrong number of fields")
			}
			var fs []string
			for _, a := range e.Args[1:] {
				fs = append(fs, env.eval(a).T)
			}
			return Val{T: App(si.ctor, fs...), Sort: si.sort, Typ: t}
		case "eltaddr":
			// eltaddr(s, i): the address of element i of slice s
			sl := env.eval(e.Args[0])
			i := env.eval(e.Args[1])
			st, ok := sl.Typ.Underlying().(*types.Slice)
			if !ok {
				bail("eltaddr: not a slice")
			}
			return Val{T: App("Elt", App("sarr", sl.T), App("at", App("soff", sl.T), i.T)), Sort: "Ref", Typ: types.NewPointer(st.Elem())}
		case "anyval":
			// anyval(name, T): an arbitrary (universally quantified) value of Go type T, used in lemmas
			name := e.Args[0].(*ast.Ident).Name
			t := env.resolveType(e.Args[1])
			sym := Sym("any!" + name)
			fc.sc.Decl(sym, nil, fc.so.sortOf(t))
			if inv := fc.typeInvTry(t, sym); inv != "" && inv != "true" {
				fc.sc.Axiom(inv, sym)
			}
			return Val{T: sym, Sort: fc.so.sortOf(t), Typ: t}
		case "tuple0", "tuple1", "tuple2":
			x := env.eval(e.Args[0])
			k := int(id.Name[5] - '0')
			if k >= len(x.Tup) {
				bail("%s: not a tuple with that component", id.Name)
			}
			return x.Tup[k]
		case "rangeslice":
			// rangeslice(): the slice the loop named in the enclosing "loop k entry" clause ranges over
			if fc.curLoop == nil {
				bail("rangeslice() is only available in loop entry clauses")
			}
			rv := fc.rangeSlice(fc.curLoop)
			if rv == nil {
				bail("loop %d is not a range loop over a slice", fc.curLoop.ord)
			}
			return fc.get(rv)
		case "inloop":
			// inloop(k): the program point being executed lies inside loop k of the function (engine-level constant)
			lit, ok := e.Args[0].(*ast.BasicLit)
			if !ok {
				bail("inloop expects a literal loop ordinal")
			}
			k, _ := strconv.Atoi(lit.Value)
			if fc.curBlock != nil {
				for _, h := range fc.loopOrder {
					if li := fc.loops[h]; li.ord == k && li.body[fc.curBlock] {
						return boolVal("true")
					}
				}
			}
			return boolVal("false")
		case "ghost":
			name := e.Args[0].(*ast.Ident).Name
			return boolVal(fc.H(env.st, fc.ghostVar(name)))
		case "entry":
			// entry value of a parameter (ignoring loop variables of the same name)
			sub := *env
			sub.loopVars = nil
			sub.st = env.old
			return sub.eval(e.Args[0])
		case "ghas", "gval":
			// ghost map attached to an object: ghas(name, obj, key) / gval(name, obj, key); keys and values are interface values
			name := e.Args[0].(*ast.Ident).Name
			obj := env.evalRefArg(e.Args[1])
			k := env.evalAsIface(e.Args[2])
			d, v := fc.ghostHeaps(name)
			if id.Name == "ghas" {
				return boolVal(Select(Select(fc.H(env.st, d), obj), k))
			}
			gv := Select(Select(fc.H(env.st, v), obj), k)
			if env.factsP != nil && (fc.inQuant == 0 || env.quantFacts) && env.st.alloc != "" {
				*env.factsP = append(*env.factsP, App("<", App("ageR", App("iref", gv)), env.st.alloc))
			}
			return Val{T: gv, Sort: "Iface", Typ: types.NewInterfaceType(nil, nil)}
		case "gsame":
			// gsame(name, obj): the ghost map of obj is unchanged since the old state
			name := e.Args[0].(*ast.Ident).Name
			obj := env.evalRefArg(e.Args[1])
			d, v := fc.ghostHeaps(name)
			return boolVal(And(Eq(Select(fc.H(env.st, d), obj), Select(fc.H(env.old, d), obj)), Eq(Select(fc.H(env.st, v), obj), Select(fc.H(env.old, v), obj))))
		case "gsameexcept":
			// gsameexcept(name, obj, key): all entries other than key are unchanged since the old state
			name := e.Args[0].(*ast.Ident).Name
			obj := env.evalRefArg(e.Args[1])
			k := env.evalAsIface(e.Args[2])
			d, v := fc.ghostHeaps(name)
			bv := Sym(strings.ReplaceAll(strings.Trim(fc.sc.Fresh("q.gk"), "|"), "~", "_"))
			body := And(Eq(Select(Select(fc.H(env.st, d), obj), bv), Select(Select(fc.H(env.old, d), obj), bv)),
				Eq(Select(Select(fc.H(env.st, v), obj), bv), Select(Select(fc.H(env.old, v), obj), bv)))
			return boolVal(fmt.Sprintf("(forall ((%s Iface)) (! %s :pattern ((select (select %s %s) %s))))", bv, Imp(Not(Eq(bv, k)), body), fc.H(env.st, d), obj, bv))
		case "unchanged":
			// unchanged(A!T | H!S!f | C!T ...): every location of that heap that existed at function entry has its entry value
			lit, ok := e.Args[0].(*ast.BasicLit)
			if !ok {
				bail("unchanged: expects a string literal naming a heap")
			}
			name, _ := strconv.Unquote(lit.Value)
			var cs []string
			for _, h := range env.readHeaps(name) {
				bv := Sym(strings.ReplaceAll(strings.Trim(fc.sc.Fresh("q.loc"), "|"), "~", "_"))
				now, then := fc.H(env.st, h), fc.H(fc.entry, h)
				if now == then {
					continue
				}
				cs = append(cs, fmt.Sprintf("(forall ((%s Ref)) (! (=> (< (ageR %s) %s) (= (select %s %s) (select %s %s))) :pattern ((select %s %s))))", bv, bv, fc.entry.alloc, now, bv, then, bv, now, bv))
			}
			return boolVal(And(cs...))
		case "sforall":
			// sforall(k, body): quantification over string-valued keys
			name := e.Args[0].(*ast.Ident).Name
			bv := Sym(strings.ReplaceAll(strings.Trim(fc.sc.Fresh("q."+name), "|"), "~", "_"))
			sub := *env
			sub.vars = map[string]Val{}
			for kk, vv := range env.vars {
				sub.vars[kk] = vv
			}
			sub.vars[name] = Val{T: bv, Sort: "String", Typ: types.Typ[types.String]}
			fc.inQuant++
			sSaved := sub.factsP
			sLocal := []string{}
			sub.factsP = &sLocal // facts that mention the bound variable are dropped (sound: fewer assumptions)
			body := sub.evalBool(e.Args[1])
			sub.factsP = sSaved
			fc.inQuant--
			if pats := selectPatterns(body, bv); len(pats) > 0 {
				return boolVal(fmt.Sprintf("(forall ((%s String)) (! %s :pattern (%s)))", bv, body, pats[0]))
			}
			return boolVal(fmt.Sprintf("(forall ((%s String)) %s)", bv, body))
		case "mforall":
			// mforall(k, m, body): body holds for every key k of map m
			name := e.Args[0].(*ast.Ident).Name
			m := env.eval(e.Args[1])
			mt, ok := m.Typ.Underlying().(*types.Map)
			if !ok {
				bail("mforall: not a map")
			}
			ks := fc.so.sortOf(mt.Key())
			bv := Sym(strings.ReplaceAll(strings.Trim(fc.sc.Fresh("q."+name), "|"), "~", "_"))
			sub := *env
			sub.vars = map[string]Val{}
			for kk, vv := range env.vars {
				sub.vars[kk] = vv
			}
			sub.vars[name] = Val{T: bv, Sort: ks, Typ: mt.Key()}
			fc.inQuant++
			savedFacts := sub.factsP
			localFacts := []string{}
			sub.factsP = &localFacts
			body := sub.evalBool(e.Args[2])
			sub.factsP = savedFacts
			fc.inQuant--
			d, _ := fc.mapHeaps(mt)
			dom := And(Not(Eq(m.T, "nilR")), Select(Select(fc.H(env.st, d), m.T), bv))
			if len(localFacts) > 0 && savedFacts != nil {
				// facts about values read inside the body mention the bound key: they hold for every key of the map
				*savedFacts = append(*savedFacts, fmt.Sprintf("(forall ((%s %s)) (! %s :pattern (%s)))", bv, ks, Imp(dom, And(localFacts...)), Select(Select(fc.H(env.st, d), m.T), bv)))
			}
			return boolVal(fmt.Sprintf("(forall ((%s %s)) (! %s :pattern (%s)))", bv, ks, Imp(dom, body), Select(Select(fc.H(env.st, d), m.T), bv)))
		case "gforall":
			// gforall(k, body): quantification over interface-valued keys
			name := e.Args[0].(*ast.Ident).Name
			bv := Sym(strings.ReplaceAll(strings.Trim(fc.sc.Fresh("q."+name), "|"), "~", "_"))
			sub := *env
			sub.vars = map[string]Val{}
			for kk, vv := range env.vars {
				sub.vars[kk] = vv
			}
			sub.vars[name] = Val{T: bv, Sort: "Iface", Typ: types.NewInterfaceType(nil, nil)}
			fc.inQuant++
			gSaved := sub.factsP
			gLocal := []string{}
			sub.factsP = &gLocal // facts that mention the bound variable are dropped (sound: fewer assumptions)
			body := sub.evalBool(e.Args[1])
			sub.factsP = gSaved
			fc.inQuant--
			// nested gforall: merge into one quantifier with a trigger that mentions every bound variable
			if strings.HasPrefix(body, "(forall (") {
				parts := splitSexp(body) // forall, binders, matrix
				if len(parts) == 3 {
					binders := "(" + fmt.Sprintf("(%s Iface) ", bv) + parts[1][1:]
					matrix := parts[2]
					if strings.HasPrefix(matrix, "(! ") {
						mp := splitSexp(matrix)
						if len(mp) >= 2 {
							matrix = mp[1]
						}
					}
					var vars []string
					for _, b := range splitSexp(binders) {
						if bp := splitSexp(b); len(bp) == 2 {
							vars = append(vars, bp[0])
						}
					}
					if pat := appPatternAll(matrix, vars); pat != "" {
						return boolVal(fmt.Sprintf("(forall %s (! %s :pattern (%s)))", binders, matrix, pat))
					}
					return boolVal(fmt.Sprintf("(forall %s %s)", binders, matrix))
				}
			}
			if pats := selectPatterns(body, bv); len(pats) > 0 {
				return boolVal(fmt.Sprintf("(forall ((%s Iface)) (! %s :pattern (%s)))", bv, body, pats[0]))
			}
			// pattern: the first pure application mentioning all bound variables
			if pat := appPattern(body, bv); pat != "" {
				return boolVal(fmt.Sprintf("(forall ((%s Iface)) (! %s :pattern (%s)))", bv, body, pat))
			}
			return boolVal(fmt.Sprintf("(forall ((%s Iface)) %s)", bv, body))
		case "disjoint":
			a, b := env.eval(e.Args[0]), env.eval(e.Args[1])
			return boolVal(Or(Not(Eq(App("sarr", a.T), App("sarr", b.T))), Eq(a.T, "nilS"), Eq(b.T, "nilS")))
		case "addr":
			return env.evalLvalue(e.Args[0])
		case "fresh":
			x := env.eval(e.Args[0])
			r := refOf(x)
			return boolVal(And(Not(Eq(r, "nilR")), App(">=", App("ageR", r), env.old.alloc)))
		case "allocated":
			x := env.eval(e.Args[0])
			return boolVal(App("<", App("ageR", refOf(x)), env.st.alloc))
		case "in":
			m := env.eval(e.Args[0])
			k := env.eval(e.Args[1])
			mt, ok := m.Typ.Underlying().(*types.Map)
			if !ok {
				bail("in(): not a map")
			}
			d, _ := fc.mapHeaps(mt)
			return boolVal(And(Not(Eq(m.T, "nilR")), Select(Select(fc.H(env.st, d), m.T), k.T)))
		case "int", "int64", "uint", "uint32", "uint64":
			return env.eval(e.Args[0])
		case "chr":
			// chr(c): the one-byte string of an ASCII code point
			x := env.eval(e.Args[0])
			return Val{T: App("str.from_code", x.T), Sort: "String", Typ: types.Typ[types.String]}
		case "umod":
			// mathematical (non-negative) remainder, as in conversion to an unsigned type
			x, m := env.eval(e.Args[0]), env.eval(e.Args[1])
			return intVal(App("mod", x.T, m.T))
		case "real":
			x := env.eval(e.Args[0])
			if x.Sort == "Real" {
				return x
			}
			return Val{T: App("to_real", x.T), Sort: "Real"}
		case "toint":
			x := env.eval(e.Args[0])
			return intVal(App("to_int", x.T))
		case "sameelems":
			// sameelems(s, lo, hi): elements lo..hi-1 of s are unchanged since old state
			s := env.eval(e.Args[0])
			lo, hi := env.eval(e.Args[1]), env.eval(e.Args[2])
			sl := s.Typ.Underlying().(*types.Slice)
			bv := Sym(strings.ReplaceAll(strings.Trim(fc.sc.Fresh("q.k"), "|"), "~", "_"))
			subOld := *env
			subOld.st = env.old
			so := subOld.eval(e.Args[0])
			body := Eq(fc.sliceElem(env.st, s.T, sl.Elem(), bv), fc.sliceElem(env.old, so.T, sl.Elem(), bv))
			return boolVal(fmt.Sprintf("(forall ((%s Int)) %s)", bv, Imp(And(App("<=", lo.T, bv), App("<", bv, hi.T)), body)))
		}
		// application of a function-typed parameter whose named type has a pure contract
		if fv, ok := env.vars[id.Name]; ok && fv.Typ != nil {
			if r, ok := env.applyFuncValue(fv, e.Args); ok {
				return r
			}
		}
		if fv, ok := fc.locals[id.Name]; ok && env.useLocals && fv.Typ != nil {
			if r, ok := env.applyFuncValue(fv, e.Args); ok {
				return r
			}
		}
		// spec function
		if sp := fc.g.CS.Specs[id.Name]; sp != nil {
			return env.applySpec(sp, e.Args)
		}
		if ns := nativeSpecs[id.Name]; ns != nil {
			return env.applyNative(id.Name, ns, e.Args)
		}
		// package-level function of the current package with a pure contract
		if env.pkg != nil {
			if o, ok := env.pkg.Scope().Lookup(id.Name).(*types.Func); ok {
				return env.callFunc(o, nil, e.Args)
			}
		}
		// conversion to a named type
		if env.pkg != nil {
			if _, ok := env.pkg.Scope().Lookup(id.Name).(*types.TypeName); ok {
				return env.eval(e.Args[0])
			}
		}
		bail("unknown function %s", id.Name)
	}
	if sel, ok := e.Fun.(*ast.SelectorExpr); ok {
		// pkg.Func(...)
		if id, ok := sel.X.(*ast.Ident); ok {
			if _, isVar := env.vars[id.Name]; !isVar {
				if _, isLoop := env.loopVars[id.Name]; !isLoop {
					if p := env.lookupPkg(id.Name); p != nil {
						o := p.Scope().Lookup(sel.Sel.Name)
						switch o := o.(type) {
						case *types.Func:
							return env.callFunc(o, nil, e.Args)
						case *types.TypeName:
							return env.eval(e.Args[0]) // conversion
						}
						bail("no function %s.%s", id.Name, sel.Sel.Name)
					}
				}
			}
		}
		// method call x.M(...)
		x := env.eval(sel.X)
		if x.Typ == nil {
			bail("method call on untyped value %s", exprStr(e))
		}
		obj, index, _ := types.LookupFieldOrMethod(x.Typ, true, env.pkg, sel.Sel.Name)
		if obj == nil {
			obj, index = lookupFieldAnyPkg(x.Typ, sel.Sel.Name)
		}
		if _, isVar := obj.(*types.Var); isVar {
			fv := fc.selectField(env.st, x, sel.Sel.Name, env.pkg, false)
			if r, ok := env.applyFuncValue(fv, e.Args); ok {
				return r
			}
		}
		m, ok := obj.(*types.Func)
		if !ok {
			bail("no method %s on %s", sel.Sel.Name, typeKey(x.Typ))
		}
		// walk embedded fields to the actual receiver
		for _, fi := range index[:len(index)-1] {
			var st *types.Struct
			if pt, ok := x.Typ.Underlying().(*types.Pointer); ok {
				st = pt.Elem().Underlying().(*types.Struct)
			} else {
				st = x.Typ.Underlying().(*types.Struct)
			}
			x = fc.selectField(env.st, x, st.Field(fi).Name(), st.Field(fi).Pkg(), isStruct(st.Field(fi).Type()))
		}
		return env.callFunc(m, &x, e.Args)
	}
	bail("unsupported call %s", exprStr(e))
	return Val{}
}

// applyFuncValue applies a value of a named function type that has a pure "func type:Name" contract.
func (env *Env) applyFuncValue(fv Val, argExprs []ast.Expr) (Val, bool) {
	fc := env.fc
	nt, ok := fv.Typ.(*types.Named)
	if !ok || nt.Obj().Pkg() == nil {
		return Val{}, false
	}
	sig, ok := nt.Underlying().(*types.Signature)
	if !ok {
		return Val{}, false
	}
	con := fc.g.CS.ByFunc[nt.Obj().Pkg().Path()+"::type:"+nt.Obj().Name()]
	if con == nil || !con.Pure {
		return Val{}, false
	}
	fce := &callee{name: nt.Obj().Pkg().Name() + ".type:" + nt.Obj().Name(), con: con, pkg: nt.Obj().Pkg(), sig: sig}
	fce.params, fce.ptypes = sigParams(sig, nil)
	fce.params = append([]string{"fn"}, fce.params...)
	fce.ptypes = append([]types.Type{nt}, fce.ptypes...)
	args := []Val{fv}
	for _, a := range argExprs {
		args = append(args, env.eval(a))
	}
	fc.g.trustedUsed[fce.name] = true
	return fc.pureApp(fce, con, args, sig.Results()), true
}

// evalRefArg evaluates an object argument: a pointer, or the address of a struct-valued field.
func (env *Env) evalRefArg(e ast.Expr) string {
	if c, ok := e.(*ast.CallExpr); ok {
		if id, ok := c.Fun.(*ast.Ident); ok && id.Name == "addr" {
			return env.evalLvalue(c.Args[0]).T
		}
	}
	v := env.eval(e)
	if v.Sort != "Ref" {
		bail("expected an object reference, got %s", v.Sort)
	}
	return v.T
}

func (env *Env) evalAsIface(e ast.Expr) string {
	v := env.eval(e)
	if v.Sort == "Iface" {
		return v.T
	}
	if v.Typ == nil {
		bail("cannot box untyped value")
	}
	return env.fc.makeIface(env.st, v, v.Typ, types.NewInterfaceType(nil, nil)).T
}

func (fc *fnCtx) ghostHeaps(name string) (d, v string) {
	d, v = Sym("Gd!"+name), Sym("Gv!"+name)
	fc.declHeap(d, "(Array Ref (Array Iface Bool))")
	fc.declHeap(v, "(Array Ref (Array Iface Iface))")
	return
}

// selectPatterns returns candidate instantiation patterns for a bounded
// quantifier: the innermost (select A idx) subterms whose index mentions the
// bound variable while A does not.
func selectPatterns(body, bv string) []string {
	var pats []string
	var walk func(t string)
	walk = func(t string) {
		if !strings.HasPrefix(t, "(") {
			return
		}
		args := splitSexp(t)
		if len(args) == 0 {
			return
		}
		if args[0] == "select" && len(args) == 3 && mentions(args[2], bv) && !mentions(args[1], bv) && patternOK(t) {
			pats = append(pats, t)
			return
		}
		for _, a := range args[1:] {
			walk(a)
		}
	}
	walk(body)
	// prefer patterns over the current (non-old) state: the first one found
	return pats
}

// reanchor rewrites a bounded quantifier over a relative index bv into one over the absolute index j of its
// first slice access (select ARR (at OFF bv)): occurrences of (at OFF bv) become j, other occurrences of bv
// become (- j OFF). ARR and OFF must not mention bv.
func reanchor(fc *fnCtx, body, rng, bv string) (nb, nbody, nrng, pat string, ok bool) {
	var anchor, arr, off string
	var walk func(t string)
	walk = func(t string) {
		if anchor != "" || !strings.HasPrefix(t, "(") {
			return
		}
		args := splitSexp(t)
		if len(args) == 0 {
			return
		}
		if args[0] == "select" && len(args) == 3 && !mentions(args[1], bv) && patternOK(args[1]) {
			ia := splitSexp(args[2])
			if len(ia) == 3 && ia[0] == "at" && ia[2] == bv && !mentions(ia[1], bv) {
				anchor, arr, off = args[2], args[1], ia[1]
				return
			}
		}
		for _, a := range args[1:] {
			walk(a)
		}
	}
	walk(body)
	if anchor == "" {
		return
	}
	nb = Sym(strings.ReplaceAll(strings.Trim(fc.sc.Fresh("q.j"), "|"), "~", "_"))
	rel := App("-", nb, off)
	sub := func(t string) string {
		t = strings.ReplaceAll(t, anchor, nb)
		return replaceSym(t, bv, rel)
	}
	return nb, sub(body), sub(rng), App("select", arr, nb), true
}

// replaceSym replaces whole-token occurrences of a symbol.
func replaceSym(t, sym, by string) string {
	var b strings.Builder
	n := len(t)
	for i := 0; i < n; {
		c := t[i]
		if c == '"' || c == '|' {
			j := i + 1
			for j < n && t[j] != c {
				j++
			}
			tok := t[i:min(j+1, n)]
			if tok == sym {
				b.WriteString(by)
			} else {
				b.WriteString(tok)
			}
			i = j + 1
			continue
		}
		if isSymChar(c) {
			j := i
			for j < n && isSymChar(t[j]) {
				j++
			}
			if t[i:j] == sym {
				b.WriteString(by)
			} else {
				b.WriteString(t[i:j])
			}
			i = j
			continue
		}
		b.WriteByte(c)
		i++
	}
	return b.String()
}

// appPattern finds an application of an uninterpreted function (f!...) in body that mentions bv and can serve as a trigger.
func appPattern(body, bv string) string {
	var found string
	var walk func(t string)
	walk = func(t string) {
		if found != "" || !strings.HasPrefix(t, "(") {
			return
		}
		args := splitSexp(t)
		if len(args) == 0 {
			return
		}
		if (strings.HasPrefix(args[0], "f!") || strings.HasPrefix(args[0], "|f!")) && mentions(t, bv) && patternOK(t) {
			found = t
			return
		}
		for _, a := range args[1:] {
			walk(a)
		}
	}
	walk(body)
	return found
}

// appPatternAll: an uninterpreted application mentioning all the given variables.
func appPatternAll(body string, vars []string) string {
	var found string
	var walk func(t string)
	walk = func(t string) {
		if found != "" || !strings.HasPrefix(t, "(") {
			return
		}
		args := splitSexp(t)
		if len(args) == 0 {
			return
		}
		if (strings.HasPrefix(args[0], "f!") || strings.HasPrefix(args[0], "|f!")) && patternOK(t) {
			all := true
			for _, v := range vars {
				if !mentions(t, v) {
					all = false
				}
			}
			if all {
				found = t
				return
			}
		}
		for _, a := range args[1:] {
			walk(a)
		}
	}
	walk(body)
	return found
}

// patternOK: E-matching patterns must not contain interpreted Boolean/arith-comparison structure.
func patternOK(t string) bool {
	for _, bad := range []string{"(ite ", "(and ", "(or ", "(not ", "(=> ", "(= ", "(< ", "(<= ", "(> ", "(>= ", "(forall ", "(exists ", "(_ is"} {
		if strings.Contains(t, bad) {
			return false
		}
	}
	return true
}

func mentions(t, sym string) bool {
	m := map[string]bool{}
	symbolsOf(t, m)
	return m[sym]
}

// splitSexp splits "(f a b)" into [f a b] at top level.
func splitSexp(t string) []string {
	if len(t) < 2 || t[0] != '(' {
		return nil
	}
	t = t[1 : len(t)-1]
	var out []string
	d := 0
	start := -1
	inq, instr := false, false
	for i := 0; i < len(t); i++ {
		c := t[i]
		switch {
		case instr:
			if c == '"' {
				instr = false
			}
		case inq:
			if c == '|' {
				inq = false
			}
		case c == '"':
			instr = true
			if start < 0 {
				start = i
			}
		case c == '|':
			inq = true
			if start < 0 {
				start = i
			}
		case c == '(':
			if d == 0 && start < 0 {
				start = i
			}
			d++
		case c == ')':
			d--
		case c == ' ' || c == '\n' || c == '\t':
			if d == 0 && start >= 0 {
				out = append(out, t[start:i])
				start = -1
			}
		default:
			if start < 0 {
				start = i
			}
		}
	}
	if start >= 0 {
		out = append(out, t[start:])
	}
	return out
}

func refOf(x Val) string {
	switch x.Sort {
	case "Ref":
		return x.T
	case "Iface":
		return App("iref", x.T)
	case "Slice":
		return App("sarr", x.T)
	}
	bail("no reference in value of sort %s", x.Sort)
	return ""
}

// callFunc applies a pure/readonly function or method inside a contract.
func (env *Env) callFunc(f *types.Func, recv *Val, argExprs []ast.Expr) Val {
	fc := env.fc
	sig := f.Type().(*types.Signature)
	ce := &callee{sig: sig, pkg: f.Pkg()}
	var args []Val
	var recvT types.Type
	if recv != nil {
		recvT = recv.Typ
		if types.IsInterface(recvT) {
			ce.invoke = true
			ce.name = fmt.Sprintf("(%s).%s", types.TypeString(recvT, nil), f.Name())
		} else {
			// method on concrete type: receiver type as declared
			recvT = sig.Recv().Type()
			ce.name = fmt.Sprintf("(%s).%s", types.TypeString(recvT, nil), f.Name())
			if _, ok := recvT.Underlying().(*types.Pointer); !ok {
				if _, isp := recv.Typ.Underlying().(*types.Pointer); isp {
					bail("value-receiver method through pointer in contract: %s", f.Name())
				}
			}
		}
		args = append(args, *recv)
	} else {
		ce.name = f.FullName()
	}
	ce.params, ce.ptypes = sigParams(sig, recvT)
	ce.external = !fc.g.isInternalPkg(f.Pkg())
	if ce.external {
		ce.con = fc.g.CS.ByFunc["ext::"+ce.name]
	} else {
		rel := f.Name()
		if recv != nil {
			rel = fmt.Sprintf("(%s).%s", types.TypeString(recvT, types.RelativeTo(f.Pkg())), f.Name())
		}
		ce.con = fc.g.CS.ByFunc[f.Pkg().Path()+"::"+rel]
		ce.name = f.Pkg().Name() + "." + rel
		if fn := fc.g.ssaFunc(f); fn != nil {
			ce.name = fc.g.fnName(fn)
			if len(fn.Params) == len(ce.params) {
				for i, p := range fn.Params {
					if p.Name() != "" && p.Name() != "_" {
						ce.params[i] = p.Name()
					}
				}
			}
		}
	}
	for i, a := range argExprs {
		v := env.eval(a)
		pi := i
		if recv != nil {
			pi++
		}
		if pi < len(ce.ptypes) {
			pt := ce.ptypes[pi]
			if v.Sort == "nil" {
				v = Val{T: nilOfSort(fc.so.sortOf(pt)), Sort: fc.so.sortOf(pt), Typ: pt}
			}
			if fc.so.sortOf(pt) == "Iface" && v.Sort == "Ref" && v.Typ != nil {
				v = fc.makeIface(env.st, v, v.Typ, pt)
			}
			if v.Sort != fc.so.sortOf(pt) {
				bail("argument %d of %s has sort %s, want %s", i, f.Name(), v.Sort, fc.so.sortOf(pt))
			}
		}
		args = append(args, v)
	}
	con := ce.con
	if con == nil {
		con = fc.g.defaultContract(ce)
	}
	if con == nil || !(con.Pure) {
		bail("function %s used in a contract must have a pure contract", ce.name)
	}
	if con.Trusted {
		fc.g.trustedUsed[ce.name] = true
	}
	var resT types.Type = sig.Results()
	return fc.pureApp(ce, con, args, resT)
}

// applySpec applies a specification function; its definition is unfolded once.
func (env *Env) applySpec(sp *SpecFn, argExprs []ast.Expr) Val {
	fc := env.fc
	if len(argExprs) != len(sp.Params) {
		bail("spec %s: arity", sp.Name)
	}
	rec := fc.g.specRecursive(sp.Name) || sp.Opaque
	specEnv := &Env{fc: fc, st: env.st, old: env.old, pkg: fc.g.pkgByPath[sp.PkgPath], vars: map[string]Val{}, unfold: env.unfold, factsP: env.factsP, quantFacts: env.quantFacts, assuming: env.assuming, useLocals: false}
	if rec {
		specEnv.unfold++
	}
	var asorts, aterms []string
	for i, a := range argExprs {
		v := env.eval(a)
		pt := specEnv.specType(sp.Params[i].Type)
		ps := specSort(fc, pt, sp.Params[i].Type)
		if v.Sort == "nil" {
			v = Val{T: nilOfSort(ps), Sort: ps, Typ: pt}
		}
		if ps == "Iface" && v.Sort == "Ref" && v.Typ != nil {
			v = fc.makeIface(env.st, v, v.Typ, pt)
		}
		if v.Sort != ps {
			bail("spec %s: argument %d has sort %s, want %s", sp.Name, i, v.Sort, ps)
		}
		if pt != nil {
			v.Typ = pt
		}
		specEnv.vars[sp.Params[i].Name] = v
		asorts = append(asorts, v.Sort)
		aterms = append(aterms, v.T)
	}
	rt := specEnv.specType(sp.Result)
	rs := specSort(fc, rt, sp.Result)
	if sp.Def != "" && !rec {
		// non-recursive specification functions are macros
		if env.macroDepth > 40 {
			bail("spec %s: macro expansion too deep (missing \"rec\" on a recursive spec function?)", sp.Name)
		}
		specEnv.macroDepth = env.macroDepth + 1
		body := specEnv.eval(parseExprOrBail(sp.Def))
		if body.Sort == "nil" {
			body = Val{T: nilOfSort(rs), Sort: rs}
		}
		if rs == "Iface" && body.Sort == "Ref" && body.Typ != nil {
			body = fc.makeIface(env.st, body, body.Typ, rt)
		}
		if body.Sort != rs {
			bail("spec %s: body sort %s, want %s", sp.Name, body.Sort, rs)
		}
		body.Typ = rt
		return body
	}
	sym := Sym("spec!" + sp.Name)
	var heapArgs, heapSorts []string
	if sp.Def != "" && !sp.NoHeap {
		// heap-reading spec functions: with a "reads" list the current values of those heaps are passed as
		// leading arguments (two states that agree on them give the same result by congruence);
		// without one the symbol is versioned by the whole-heap version of the state
		if len(sp.Reads) > 0 {
			for _, r := range sp.Reads {
				for _, h := range specEnv.readHeaps(r) {
					heapArgs = append(heapArgs, fc.H(env.st, h))
					heapSorts = append(heapSorts, fc.heapSort[h])
				}
			}
		} else {
			sym = Sym(fmt.Sprintf("spec!%s@%d", sp.Name, env.st.ver))
		}
	}
	fc.sc.Decl(sym, append(append([]string{}, heapSorts...), asorts...), rs)
	app := sym
	if len(aterms)+len(heapArgs) > 0 {
		app = App(sym, append(append([]string{}, heapArgs...), aterms...)...)
	}
	res := Val{T: app, Sort: rs, Typ: rt}
	if sp.Opaque && sp.Def != "" {
		// quantified definitional axiom, instantiated by E-matching on applications
		key := "opaque:" + sym + strings.Join(heapArgs, ",")
		if !fc.pureDone[key] {
			fc.pureDone[key] = true
			qEnv := &Env{fc: fc, st: env.st, old: env.old, pkg: fc.g.pkgByPath[sp.PkgPath], vars: map[string]Val{}, unfold: fc.g.UnfoldDepth}
			var binders, bvars []string
			for i, prm := range sp.Params {
				bv := Sym(strings.ReplaceAll(strings.Trim(fc.sc.Fresh("q."+prm.Name), "|"), "~", "_"))
				v := specEnv.vars[prm.Name]
				binders = append(binders, fmt.Sprintf("(%s %s)", bv, asorts[i]))
				bvars = append(bvars, bv)
				qEnv.vars[prm.Name] = Val{T: bv, Sort: asorts[i], Typ: v.Typ}
			}
			fc.inQuant++
			body := qEnv.eval(parseExprOrBail(sp.Def))
			fc.inQuant--
			if body.Sort != rs {
				bail("spec %s: body sort %s, want %s", sp.Name, body.Sort, rs)
			}
			qapp := App(sym, append(append([]string{}, heapArgs...), bvars...)...)
			fc.sc.Axiom(fmt.Sprintf("(forall (%s) (! (= %s %s) :pattern (%s)))", strings.Join(binders, " "), qapp, body.T, qapp), sym)
		}
		return res
	}
	if sp.Def != "" && env.unfold < fc.g.UnfoldDepth && fc.inQuant == 0 {
		key := "spec:" + app
		if !fc.pureDone[key] {
			fc.pureDone[key] = true
			body := specEnv.eval(parseExprOrBail(sp.Def))
			if body.Sort != rs {
				bail("spec %s: body sort %s, want %s", sp.Name, body.Sort, rs)
			}
			// include the unfolding only in queries that mention this very application
			trig := map[string]bool{}
			symbolsOf(app, trig)
			var tl []string
			for _, k := range sortedKeys(trig) {
				if fc.sc.Has(k) {
					tl = append(tl, k)
				}
			}
			fc.sc.Axiom(Eq(app, body.T), tl...)
		}
	}
	return res
}

// readHeaps resolves an entry of a "reads" list to heap names:
//
//	A!T (elements of []T), H!S!f (field f of struct S), C!T (cells of T), M!K!V (maps), G!name (ghost maps)
func (env *Env) readHeaps(r string) []string {
	fc := env.fc
	parts := strings.Split(r, "!")
	switch {
	case parts[0] == "A" && len(parts) == 2:
		return []string{fc.elemHeap(env.resolveType(parseExprOrBail(parts[1])))}
	case parts[0] == "C" && len(parts) == 2:
		return []string{fc.cellHeap(env.resolveType(parseExprOrBail(parts[1])))}
	case parts[0] == "H" && len(parts) == 3:
		t := env.resolveType(parseExprOrBail(parts[1]))
		si := fc.so.structOf(t)
		for k := 0; k < si.st.NumFields(); k++ {
			if si.st.Field(k).Name() == parts[2] {
				if isStruct(si.st.Field(k).Type()) {
					return fc.leafHeaps(si.st.Field(k).Type())
				}
				return []string{fc.fieldHeap(si, k)}
			}
		}
	case parts[0] == "M" && len(parts) == 3:
		d, v := fc.mapHeaps(types.NewMap(env.resolveType(parseExprOrBail(parts[1])), env.resolveType(parseExprOrBail(parts[2]))))
		return []string{d, v}
	case parts[0] == "G" && len(parts) == 2:
		d, v := fc.ghostHeaps(parts[1])
		return []string{d, v}
	}
	bail("reads: cannot resolve heap %s", r)
	return nil
}

func (env *Env) specType(s string) types.Type {
	if strings.HasPrefix(s, "$") {
		return nil
	}
	return env.resolveType(parseExprOrBail(s))
}

func specSort(fc *fnCtx, t types.Type, s string) string {
	if t == nil {
		return strings.TrimPrefix(s, "$")
	}
	return fc.so.sortOf(t)
}
