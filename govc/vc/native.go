package vc

import (
	"fmt"
	"go/types"
	"strings"
)

// Native spec functions: finite tables computed from the toolchain's own
// go/types (the properties' oracle) at run time and emitted as define-funs.
type nativeSpec struct {
	args []string
	res  string
	text func() string
}

func table1(name, res string, f func(k int) string, dflt string) string {
	var b strings.Builder
	fmt.Fprintf(&b, "(define-fun %s ((k Int)) %s ", name, res)
	n := 0
	for k := 0; k <= int(types.UntypedNil); k++ {
		fmt.Fprintf(&b, "(ite (= k %d) %s ", k, f(k))
		n++
	}
	b.WriteString(dflt)
	b.WriteString(strings.Repeat(")", n))
	b.WriteString(")")
	return b.String()
}

func table2(name string, f func(a, b int) bool) string {
	var rows []string
	for a := 0; a <= int(types.UntypedNil); a++ {
		var cols []string
		for c := 0; c <= int(types.UntypedNil); c++ {
			if f(a, c) {
				cols = append(cols, fmt.Sprintf("(= b %d)", c))
			}
		}
		if len(cols) > 0 {
			rows = append(rows, And(fmt.Sprintf("(= a %d)", a), Or(cols...)))
		}
	}
	return fmt.Sprintf("(define-fun %s ((a Int) (b Int)) Bool %s)", name, Or(rows...))
}

func boolLit(b bool) string {
	if b {
		return "true"
	}
	return "false"
}

var nativeSpecs = map[string]*nativeSpec{
	"InfoOf": {args: []string{"Int"}, res: "Int", text: func() string {
		return table1("spec!InfoOf", "Int", func(k int) string { return fmt.Sprint(int(types.Typ[k].Info())) }, "0")
	}},
	"DefaultKind": {args: []string{"Int"}, res: "Int", text: func() string {
		return table1("spec!DefaultKind", "Int", func(k int) string {
			return fmt.Sprint(int(types.Default(types.Typ[k]).(*types.Basic).Kind()))
		}, "0")
	}},
	"BasicComparable": {args: []string{"Int"}, res: "Bool", text: func() string {
		return table1("spec!BasicComparable", "Bool", func(k int) string { return boolLit(types.Comparable(types.Typ[k])) }, "false")
	}},
	"BasicAssignable": {args: []string{"Int", "Int"}, res: "Bool", text: func() string {
		return table2("spec!BasicAssignable", func(a, b int) bool { return types.AssignableTo(types.Typ[a], types.Typ[b]) })
	}},
	"BasicConvertible": {args: []string{"Int", "Int"}, res: "Bool", text: func() string {
		return table2("spec!BasicConvertible", func(a, b int) bool { return types.ConvertibleTo(types.Typ[a], types.Typ[b]) })
	}},
}

func (env *Env) applyNative(name string, ns *nativeSpec, argExprs []astExpr) Val {
	fc := env.fc
	sym := "spec!" + name
	if !fc.sc.Has(sym) {
		fc.sc.RawItem(ns.text(), []string{sym})
	}
	if len(argExprs) != len(ns.args) {
		bail("spec %s: arity", name)
	}
	var ts []string
	for i, a := range argExprs {
		v := env.eval(a)
		if v.Sort != ns.args[i] {
			bail("spec %s: argument %d has sort %s", name, i, v.Sort)
		}
		ts = append(ts, v.T)
	}
	var typ types.Type
	if ns.res == "Int" {
		typ = types.Typ[types.Int]
	} else if ns.res == "Bool" {
		typ = types.Typ[types.Bool]
	}
	return Val{T: App(sym, ts...), Sort: ns.res, Typ: typ}
}
