package vc

import (
	"fmt"
	"go/types"
	"strings"
)

// Val is the symbolic value of an SSA value or contract expression.
type Val struct {
	T        string     // SMT term
	Sort     string     // SMT sort of T
	Typ      types.Type // Go type (nil for pure spec values)
	Tup      []Val      // tuple components
	Addr     *Addr      // non-materialised address (pointer into a field/element)
	MaybeElt bool       // a pointer term that may denote a slice element (Elt arr idx)
}

const (
	rootField = iota // struct field in the heap: heap H!S!f indexed by struct ref
	rootCell         // free-standing cell: heap C!T indexed by cell ref
	rootElem         // element of a backing array: heap A!E indexed by array ref, then index
)

type pathStep struct {
	si   *structInfo // field projection (if non-nil)
	fidx int
	idx  string // array index projection (if si == nil)
}

// Addr describes a memory location that is not represented as a Ref term.
type Addr struct {
	Root     int
	Heap     string
	Key      string
	Idx      string
	RootType types.Type // type of the value stored at the root location
	Path     []pathStep
	Typ      types.Type // type of the addressed value
	Cond     string     // conditional address: this address if Cond holds, otherwise Alt
	Alt      *Addr
}

// State is the symbolic machine state at a program point.
type State struct {
	heap  map[string]string
	base  string // suffix for heaps not in the map
	reach string // Bool term: this point is reached and all assumptions so far hold
	alloc string // Int term: allocation counter
	ver   int    // heap version: states with equal ver have identical heaps
	// source-level locals (from DebugRef / named phis) as they are at this program point
	locals    map[string]Val
	localAddr map[string]bool
}

func (st *State) setLocal(name string, v Val, isAddr bool) {
	if st.locals == nil {
		st.locals = map[string]Val{}
		st.localAddr = map[string]bool{}
	}
	st.locals[name] = v
	if isAddr {
		st.localAddr[name] = true
	} else {
		delete(st.localAddr, name)
	}
}

func (st *State) clone() *State {
	n := &State{heap: make(map[string]string, len(st.heap)), base: st.base, reach: st.reach, alloc: st.alloc, ver: st.ver}
	for k, v := range st.heap {
		n.heap[k] = v
	}
	if st.locals != nil {
		n.locals = make(map[string]Val, len(st.locals))
		n.localAddr = make(map[string]bool, len(st.localAddr))
		for k, v := range st.locals {
			n.locals[k] = v
		}
		for k, v := range st.localAddr {
			n.localAddr[k] = v
		}
	}
	return n
}

// heap naming -----------------------------------------------------------------

func (fc *fnCtx) fieldHeap(si *structInfo, i int) string {
	name := Sym("H!" + si.key + "!" + si.st.Field(i).Name())
	fc.declHeap(name, "(Array Ref "+fc.so.sortOf(si.st.Field(i).Type())+")")
	return name
}

func (fc *fnCtx) cellHeap(t types.Type) string {
	name := Sym("C!" + typeKey(t))
	fc.declHeap(name, "(Array Ref "+fc.so.sortOf(t)+")")
	return name
}

func (fc *fnCtx) elemHeap(t types.Type) string {
	name := Sym("A!" + typeKey(t))
	fc.declHeap(name, "(Array Ref (Array Int "+fc.so.sortOf(t)+"))")
	return name
}

func (fc *fnCtx) mapHeaps(m *types.Map) (dom, val string) {
	k := typeKey(m.Key()) + "!" + typeKey(m.Elem())
	dom, val = Sym("Md!"+k), Sym("Mv!"+k)
	ks := fc.so.sortOf(m.Key())
	fc.declHeap(dom, "(Array Ref (Array "+ks+" Bool))")
	fc.declHeap(val, "(Array Ref (Array "+ks+" "+fc.so.sortOf(m.Elem())+"))")
	return
}

func (fc *fnCtx) declHeap(name, sort string) {
	if _, ok := fc.heapSort[name]; !ok {
		if fc.preHeaps {
			// a heap that pass 1 did not see (should not happen): still sound, merges may lose precision
			fc.note("heap %s first seen in pass 2", name)
		}
		fc.heapSort[name] = sort
		fc.heapOrder = append(fc.heapOrder, name)
	}
}

// H returns the current term of heap `name` in state st.
func (fc *fnCtx) H(st *State, name string) string {
	if t, ok := st.heap[name]; ok {
		return t
	}
	sym := Sym(trimBars(name) + "@" + st.base)
	fc.sc.Decl(sym, nil, fc.heapSort[name])
	return sym
}

func trimBars(s string) string {
	if len(s) >= 2 && s[0] == '|' {
		return s[1 : len(s)-1]
	}
	return s
}

func (fc *fnCtx) setH(st *State, name, term string) {
	// keep terms small: name every new heap version
	sym := fc.sc.Fresh(trimBars(name))
	fc.sc.Def(sym, fc.heapSort[name], term)
	st.heap[name] = sym
	fc.verCounter++
	st.ver = fc.verCounter
}

// havocAll forgets everything about the heap.
func (fc *fnCtx) havocAll(st *State) {
	keep := map[string]string{}
	for k, v := range st.heap {
		if strings.HasPrefix(k, "|ghost!") || strings.HasPrefix(k, "ghost!") {
			keep[k] = v // function-local ghost flags are not memory
		}
	}
	st.heap = keep
	fc.epoch++
	st.base = fmt.Sprint(fc.epoch)
	fc.verCounter++
	st.ver = fc.verCounter
}

func (fc *fnCtx) havocHeap(st *State, name string) {
	sym := fc.sc.Fresh(trimBars(name))
	fc.sc.Decl(sym, nil, fc.heapSort[name])
	st.heap[name] = sym
	fc.verCounter++
	st.ver = fc.verCounter
}

// loads and stores --------------------------------------------------------------

func (fc *fnCtx) rootLoad(st *State, a *Addr) string {
	if gl := fc.globalSyms[a.Key]; gl != nil && a.Root == rootElem {
		if v, ok := fc.globalInit(gl, st); ok {
			return Select(v.T, a.Idx)
		}
	}
	switch a.Root {
	case rootField, rootCell:
		return Select(fc.H(st, a.Heap), a.Key)
	default:
		return Select(Select(fc.H(st, a.Heap), a.Key), a.Idx)
	}
}

func (fc *fnCtx) rootStore(st *State, a *Addr, v string) {
	h := fc.H(st, a.Heap)
	switch a.Root {
	case rootField, rootCell:
		fc.setH(st, a.Heap, Store(h, a.Key, v))
	default:
		fc.setH(st, a.Heap, Store(h, a.Key, Store(Select(h, a.Key), a.Idx, v)))
	}
}

func project(v string, p pathStep) string {
	if p.si != nil {
		return App(p.si.fields[p.fidx], v)
	}
	return Select(v, p.idx)
}

// update returns `root` with the sub-value at path replaced by v.
func (fc *fnCtx) update(root string, path []pathStep, v string) string {
	if len(path) == 0 {
		return v
	}
	p := path[0]
	inner := fc.update(project(root, p), path[1:], v)
	if p.si != nil {
		var args []string
		for i := range p.si.fields {
			if i == p.fidx {
				args = append(args, inner)
			} else {
				args = append(args, App(p.si.fields[i], root))
			}
		}
		return App(p.si.ctor, args...)
	}
	return Store(root, p.idx, inner)
}

func (fc *fnCtx) loadAddr(st *State, a *Addr) Val {
	if a.Alt != nil {
		x := *a
		x.Alt, x.Cond = nil, ""
		v1 := fc.loadAddr(st, &x)
		v2 := fc.loadAddr(st, a.Alt)
		return Val{T: Ite(a.Cond, v1.T, v2.T), Sort: v1.Sort, Typ: a.Typ}
	}
	v := fc.rootLoad(st, a)
	for _, p := range a.Path {
		v = project(v, p)
	}
	return Val{T: v, Sort: fc.so.sortOf(a.Typ), Typ: a.Typ}
}

func (fc *fnCtx) storeAddr(st *State, a *Addr, v string) {
	if a.Alt != nil {
		x := *a
		x.Alt, x.Cond = nil, ""
		s1, s2 := st.clone(), st.clone()
		fc.storeAddr(s1, &x, v)
		fc.storeAddr(s2, a.Alt, v)
		names := map[string]bool{}
		for n, t := range s1.heap {
			if st.heap[n] != t {
				names[n] = true
			}
		}
		for n, t := range s2.heap {
			if st.heap[n] != t {
				names[n] = true
			}
		}
		for _, n := range sortedKeys(names) {
			fc.setH(st, n, Ite(a.Cond, fc.H(s1, n), fc.H(s2, n)))
		}
		return
	}
	if len(a.Path) == 0 {
		fc.rootStore(st, a, v)
		return
	}
	fc.rootStore(st, a, fc.update(fc.rootLoad(st, a), a.Path, v))
}

// loadStruct reads a heap-decomposed struct at ref into a datatype value.
func (fc *fnCtx) loadStruct(st *State, ref string, t types.Type) string {
	si := fc.so.structOf(t)
	var args []string
	for i := 0; i < si.st.NumFields(); i++ {
		ft := si.st.Field(i).Type()
		if isStruct(ft) {
			args = append(args, fc.loadStruct(st, fc.subRef(ref, si, i), ft))
		} else {
			args = append(args, Select(fc.H(st, fc.fieldHeap(si, i)), ref))
		}
	}
	return App(si.ctor, args...)
}

func (fc *fnCtx) storeStruct(st *State, ref string, t types.Type, v string) {
	si := fc.so.structOf(t)
	for i := 0; i < si.st.NumFields(); i++ {
		ft := si.st.Field(i).Type()
		fv := App(si.fields[i], v)
		if isStruct(ft) {
			fc.storeStruct(st, fc.subRef(ref, si, i), ft, fv)
		} else {
			h := fc.fieldHeap(si, i)
			fc.setH(st, h, Store(fc.H(st, h), ref, fv))
		}
	}
}

func (fc *fnCtx) subRef(ref string, si *structInfo, i int) string {
	return App("Sub", ref, fmt.Sprint(fc.so.fieldID(si, i)))
}

// leafHeaps lists all heaps that hold parts of a heap-decomposed struct.
func (fc *fnCtx) leafHeaps(t types.Type) []string {
	si := fc.so.structOf(t)
	var r []string
	for i := 0; i < si.st.NumFields(); i++ {
		ft := si.st.Field(i).Type()
		if isStruct(ft) {
			r = append(r, fc.leafHeaps(ft)...)
		} else {
			r = append(r, fc.fieldHeap(si, i))
		}
	}
	return r
}

// materialize turns the address of a slice/array element into a Ref term (Elt arr idx).
func (fc *fnCtx) materialize(v Val) (Val, bool) {
	if v.Addr == nil {
		return v, true
	}
	if v.Addr.Root == rootElem && len(v.Addr.Path) == 0 {
		return Val{T: App("Elt", v.Addr.Key, v.Addr.Idx), Sort: "Ref", Typ: v.Typ, MaybeElt: true}, true
	}
	return v, false
}

// deref loads the value a pointer value points to.
func (fc *fnCtx) deref(st *State, p Val) Val {
	if p.Addr != nil {
		return fc.loadAddr(st, p.Addr)
	}
	if p.MaybeElt {
		et := p.Typ.Underlying().(*types.Pointer).Elem()
		elt := Select(Select(fc.H(st, fc.elemHeap(et)), App("earr", p.T)), App("eidx", p.T))
		var other string
		if isStruct(et) {
			other = fc.loadStruct(st, p.T, et)
		} else {
			other = Select(fc.H(st, fc.cellHeap(et)), p.T)
		}
		return Val{T: Ite("((_ is Elt) "+p.T+")", elt, other), Sort: fc.so.sortOf(et), Typ: et}
	}
	pt, ok := p.Typ.Underlying().(*types.Pointer)
	if !ok {
		bail("deref of non-pointer %s", typeKey(p.Typ))
	}
	et := pt.Elem()
	switch u := et.Underlying().(type) {
	case *types.Struct:
		return Val{T: fc.loadStruct(st, p.T, et), Sort: fc.so.sortOf(et), Typ: et}
	case *types.Array:
		return Val{T: Select(fc.H(st, fc.elemHeap(u.Elem())), p.T), Sort: fc.so.sortOf(et), Typ: et}
	}
	return Val{T: Select(fc.H(st, fc.cellHeap(et)), p.T), Sort: fc.so.sortOf(et), Typ: et}
}

func (fc *fnCtx) storeThrough(st *State, p Val, v string) {
	if p.Addr != nil {
		fc.storeAddr(st, p.Addr, v)
		return
	}
	if p.MaybeElt {
		et := p.Typ.Underlying().(*types.Pointer).Elem()
		isElt := "((_ is Elt) " + p.T + ")"
		h := fc.elemHeap(et)
		H := fc.H(st, h)
		// element case
		st2 := st.clone()
		p2 := p
		p2.MaybeElt = false
		fc.storeThrough(st2, p2, v) // object case (heap-decomposed struct or cell)
		for name, t := range st2.heap {
			if st.heap[name] != t {
				fc.setH(st, name, Ite(isElt, fc.H(st, name), t))
			}
		}
		fc.setH(st, h, Ite(isElt, Store(H, App("earr", p.T), Store(Select(H, App("earr", p.T)), App("eidx", p.T), v)), fc.H(st, h)))
		return
	}
	pt := p.Typ.Underlying().(*types.Pointer)
	et := pt.Elem()
	switch u := et.Underlying().(type) {
	case *types.Struct:
		fc.storeStruct(st, p.T, et, v)
		return
	case *types.Array:
		h := fc.elemHeap(u.Elem())
		fc.setH(st, h, Store(fc.H(st, h), p.T, v))
		return
	}
	h := fc.cellHeap(et)
	fc.setH(st, h, Store(fc.H(st, h), p.T, v))
}

// fieldAddr computes &x.f for pointer-to-struct x.
func (fc *fnCtx) fieldAddr(x Val, structT types.Type, i int) Val {
	if x.MaybeElt {
		// the pointer is either an element of a slice of structs or a heap object: conditional address
		si := fc.so.structOf(structT)
		ft := si.st.Field(i).Type()
		if isStruct(ft) {
			bail("nested struct field through a pointer that may address a slice element")
		}
		elt := &Addr{Root: rootElem, Heap: fc.elemHeap(structT), Key: App("earr", x.T), Idx: App("eidx", x.T), RootType: structT,
			Path: []pathStep{{si: si, fidx: i}}, Typ: ft, Cond: "((_ is Elt) " + x.T + ")"}
		elt.Alt = &Addr{Root: rootField, Heap: fc.fieldHeap(si, i), Key: x.T, RootType: ft, Typ: ft}
		return Val{Typ: types.NewPointer(ft), Sort: "Ref", Addr: elt}
	}
	si := fc.so.structOf(structT)
	ft := si.st.Field(i).Type()
	pt := types.NewPointer(ft)
	if x.Addr != nil {
		a := *x.Addr
		a.Path = append(append([]pathStep{}, a.Path...), pathStep{si: si, fidx: i})
		a.Typ = ft
		return Val{Typ: pt, Sort: "Ref", Addr: &a}
	}
	if isStruct(ft) {
		return Val{T: fc.subRef(x.T, si, i), Sort: "Ref", Typ: pt}
	}
	a := &Addr{Root: rootField, Heap: fc.fieldHeap(si, i), Key: x.T, RootType: ft, Typ: ft}
	return Val{Typ: pt, Sort: "Ref", Addr: a}
}

// indexAddrArr computes &x[i] for pointer-to-array x.
func (fc *fnCtx) indexAddrArr(x Val, arr *types.Array, idx string) Val {
	et := arr.Elem()
	pt := types.NewPointer(et)
	if x.Addr != nil {
		a := *x.Addr
		a.Path = append(append([]pathStep{}, a.Path...), pathStep{idx: idx})
		a.Typ = et
		return Val{Typ: pt, Sort: "Ref", Addr: &a}
	}
	a := &Addr{Root: rootElem, Heap: fc.elemHeap(et), Key: x.T, Idx: idx, RootType: et, Typ: et}
	return Val{Typ: pt, Sort: "Ref", Addr: a}
}

// sliceIdx: absolute index of element i of slice term s. A slice obtained by re-slicing (x[lo:...]) is indexed
// relative to the original slice's offset, at(soff x, lo+i), so that quantified facts about x's elements match.
func (fc *fnCtx) sliceIdx(s, i string) string {
	if rb, ok := fc.sliceBase[s]; ok {
		return App("at", rb.off, App("+", rb.delta, i))
	}
	return App("at", App("soff", s), i)
}

func (fc *fnCtx) indexAddrSlice(s Val, elem types.Type, idx string) Val {
	a := &Addr{Root: rootElem, Heap: fc.elemHeap(elem), Key: App("sarr", s.T), Idx: fc.sliceIdx(s.T, idx), RootType: elem, Typ: elem}
	return Val{Typ: types.NewPointer(elem), Sort: "Ref", Addr: a}
}

// sliceElem reads s[i].
func (fc *fnCtx) sliceElem(st *State, s string, elem types.Type, idx string) string {
	return Select(Select(fc.H(st, fc.elemHeap(elem)), App("sarr", s)), fc.sliceIdx(s, idx))
}

// newRef allocates a fresh reference.
func (fc *fnCtx) newRef(st *State) string {
	sym := fc.sc.Fresh("new")
	fc.sc.Def(sym, "Ref", App("R", st.alloc))
	fc.sc.Axiom(Eq(App("age", sym), st.alloc), sym)
	a2 := fc.sc.Fresh("alloc")
	fc.sc.Def(a2, "Int", App("+", st.alloc, "1"))
	st.alloc = a2
	return sym
}
