package vc

import (
	"golang.org/x/tools/go/ssa"
)

// initValue: value of a package-level variable that is only written by the
// package initialiser. (Filled in by globals_init.go logic.)
func (g *Gen) initValue(fc *fnCtx, gl *ssa.Global, st *State) (Val, bool) {
	return Val{}, false
}
