package vc

import (
	"fmt"
	"go/types"
	"os"

	"golang.org/x/tools/go/ssa"
)

// initConst reports whether a package-level variable is written only by its
// package initialiser (syntactic check over all functions of the package: no
// Store/MapUpdate whose address is rooted at the global outside init).
func (g *Gen) initConst(gl *ssa.Global) (stores []*ssa.Store, ok bool) {
	if r, done := g.initConstCache[gl]; done {
		return r, r != nil
	}
	g.initConstCache[gl] = nil
	pkg := gl.Pkg
	if pkg == nil || !g.internal[pkg.Pkg.Path()] {
		return nil, false
	}
	var found []*ssa.Store
	bad := false
	var visit func(fn *ssa.Function)
	seen := map[*ssa.Function]bool{}
	visit = func(fn *ssa.Function) {
		if seen[fn] {
			return
		}
		seen[fn] = true
		isInit := fn.Name() == "init" && fn.Parent() == nil
		for _, b := range fn.Blocks {
			for _, ins := range b.Instrs {
				switch ins := ins.(type) {
				case *ssa.Store:
					if rootOf(ins.Addr) == ssa.Value(gl) {
						if isInit {
							found = append(found, ins)
						} else {
							bad = true
						}
					}
				case *ssa.MapUpdate:
					if rootOf(ins.Map) == ssa.Value(gl) {
						bad = true
					}
				case *ssa.Call:
					// the address of the global escaping into a call
					for _, a := range ins.Common().Args {
						if a == ssa.Value(gl) {
							bad = true
						}
					}
				case *ssa.MakeClosure:
					for _, bnd := range ins.Bindings {
						if bnd == ssa.Value(gl) {
							bad = true
						}
					}
				}
			}
		}
		for _, af := range fn.AnonFuncs {
			visit(af)
		}
	}
	for _, m := range pkg.Members {
		switch m := m.(type) {
		case *ssa.Function:
			visit(m)
		case *ssa.Type:
			for _, t := range []types.Type{m.Type(), types.NewPointer(m.Type())} {
				ms := g.Prog.MethodSets.MethodSet(t)
				for i := 0; i < ms.Len(); i++ {
					if f := g.Prog.MethodValue(ms.At(i)); f != nil && f.Pkg == pkg {
						visit(f)
					}
				}
			}
		}
	}
	if bad || found == nil {
		if os.Getenv("GOVC_DEBUG") != "" {
			fmt.Fprintf(os.Stderr, "initConst %s: bad=%v found=%v\n", gl.Name(), bad, found != nil)
		}
		return nil, false
	}
	for _, s := range found {
		if s.Block() != found[0].Block() {
			return nil, false
		}
	}
	g.initConstCache[gl] = found
	return found, true
}

// rootOf follows FieldAddr/IndexAddr chains to the base pointer; a load of a
// global's value followed by an update (maps, slices) is also rooted there.
func rootOf(v ssa.Value) ssa.Value {
	for {
		switch x := v.(type) {
		case *ssa.FieldAddr:
			v = x.X
		case *ssa.IndexAddr:
			v = x.X
		case *ssa.UnOp:
			if _, ok := x.X.(*ssa.Global); ok {
				return x.X
			}
			return v
		default:
			return v
		}
	}
}

// initValue symbolically executes the slice of the package initialiser that
// computes the global's value. Supported for array/struct/basic values built
// in one basic block from constants and pure external calls.
func (g *Gen) initValue(fc *fnCtx, gl *ssa.Global, st *State) (res Val, ok bool) {
	if fc.noGlobalInit > 0 {
		return Val{}, false
	}
	if v, done := fc.globalVals[gl]; done {
		return v, v.T != ""
	}
	fc.globalVals[gl] = Val{}
	stores, isConst := g.initConst(gl)
	if !isConst {
		fc.note("global %s is not init-constant", gl.Name())
		return Val{}, false
	}
	et := gl.Type().Underlying().(*types.Pointer).Elem()
	// only the variable's own value is constant; whatever it points to is read from the heap as usual
	switch et.Underlying().(type) {
	case *types.Array, *types.Basic, *types.Struct, *types.Pointer, *types.Interface:
	default:
		return Val{}, false
	}
	blk := stores[0].Block()
	need := map[ssa.Instruction]bool{}
	locals := map[ssa.Value]bool{}
	var addVal func(v ssa.Value) bool
	addVal = func(v ssa.Value) bool {
		ins, isIns := v.(ssa.Instruction)
		if !isIns {
			switch v.(type) {
			case *ssa.Const, *ssa.Global, *ssa.Function, *ssa.Builtin:
				return true
			}
			return false
		}
		if need[ins] {
			return true
		}
		if ins.Block() != blk {
			return false
		}
		need[ins] = true
		if a, ok := v.(*ssa.Alloc); ok {
			locals[a] = true
		}
		if c, ok := v.(*ssa.Call); ok {
			// only pure external calls are admitted
			ce := fc.resolveCallee(c.Common())
			if ce == nil {
				return false
			}
			con := ce.con
			if con == nil {
				con = g.defaultContract(ce)
			}
			if con == nil || !con.Pure {
				return false
			}
		}
		for _, op := range ins.Operands(nil) {
			if *op != nil && !addVal(*op) {
				return false
			}
		}
		return true
	}
	for _, s := range stores {
		need[s] = true
		if !addVal(s.Val) || !addVal(s.Addr) {
			fc.note("global %s: initialiser slice not supported", gl.Name())
			return Val{}, false
		}
	}
	// stores into the needed locals
	for changed := true; changed; {
		changed = false
		for _, ins := range blk.Instrs {
			if s, ok := ins.(*ssa.Store); ok && !need[s] {
				if r := rootOf(s.Addr); locals[r] {
					need[s] = true
					changed = true
					if !addVal(s.Addr) || !addVal(s.Val) {
						return Val{}, false
					}
				}
			}
		}
	}
	defer func() {
		if e := recover(); e != nil {
			if u, isU := e.(unsupported); isU {
				fc.note("global %s: initialiser not executable: %s", gl.Name(), u.msg)
				res, ok = Val{}, false
				return
			}
			panic(e)
		}
	}()
	ia := fc.sc.Fresh("alloc.init")
	fc.sc.Decl(ia, nil, "Int")
	scratch := &State{heap: map[string]string{}, base: "init", reach: "true", alloc: ia}
	fc.noOblige++
	fc.noGlobalInit++
	// the variable starts out zeroed
	fc.storeThrough(scratch, Val{T: fc.globalRef(gl), Sort: "Ref", Typ: gl.Type()}, fc.so.zero(et))
	for _, ins := range blk.Instrs {
		if need[ins] {
			fc.instr(ins, scratch)
		}
	}
	fc.noGlobalInit--
	fc.noOblige--
	fc.noGlobalInit++
	v := fc.deref(scratch, Val{T: fc.globalRef(gl), Sort: "Ref", Typ: gl.Type()})
	fc.noGlobalInit--
	fc.globalVals[gl] = v
	fc.note("global %s is init-constant: value taken from the package initialiser", gl.Name())
	return v, true
}
