package vc

import (
	"fmt"
	"math/big"
	"sort"
	"strings"
)

// ---------------------------------------------------------------------------
// term construction helpers (terms are SMT-LIB strings)

func App(f string, args ...string) string {
	if len(args) == 0 {
		return f
	}
	return "(" + f + " " + strings.Join(args, " ") + ")"
}

func And(xs ...string) string {
	var ys []string
	for _, x := range xs {
		if x == "true" || x == "" {
			continue
		}
		if x == "false" {
			return "false"
		}
		ys = append(ys, x)
	}
	switch len(ys) {
	case 0:
		return "true"
	case 1:
		return ys[0]
	}
	return App("and", ys...)
}

func Or(xs ...string) string {
	var ys []string
	for _, x := range xs {
		if x == "false" || x == "" {
			continue
		}
		if x == "true" {
			return "true"
		}
		ys = append(ys, x)
	}
	switch len(ys) {
	case 0:
		return "false"
	case 1:
		return ys[0]
	}
	return App("or", ys...)
}

func Not(x string) string {
	switch x {
	case "true":
		return "false"
	case "false":
		return "true"
	}
	if strings.HasPrefix(x, "(not ") && balanced(x[5:len(x)-1]) {
		return x[5 : len(x)-1]
	}
	return App("not", x)
}

func balanced(s string) bool {
	d := 0
	inq := false
	instr := false
	for i := 0; i < len(s); i++ {
		c := s[i]
		switch {
		case instr:
			if c == '"' {
				instr = false
			}
		case inq:
			if c == '|' {
				inq = false
			}
		case c == '"':
			instr = true
		case c == '|':
			inq = true
		case c == '(':
			d++
		case c == ')':
			d--
			if d < 0 {
				return false
			}
		}
	}
	return d == 0 && !inq && !instr
}

func Imp(a, b string) string {
	if a == "true" {
		return b
	}
	if a == "false" || b == "true" {
		return "true"
	}
	return App("=>", a, b)
}
func Eq(a, b string) string {
	if a == b {
		return "true"
	}
	if len(a) > 1 && len(b) > 1 && a[0] == '"' && b[0] == '"' {
		return "false" // distinct string literals
	}
	return App("=", a, b)
}
func Ite(c, a, b string) string {
	if c == "true" {
		return a
	}
	if c == "false" {
		return b
	}
	if a == b {
		return a
	}
	return App("ite", c, a, b)
}
func Select(a, i string) string   { return App("select", a, i) }
func Store(a, i, v string) string { return App("store", a, i, v) }

func IntLit(n int64) string {
	if n < 0 {
		return "(- " + new(big.Int).Neg(big.NewInt(n)).String() + ")"
	}
	return fmt.Sprint(n)
}

func BigLit(n *big.Int) string {
	if n.Sign() < 0 {
		return "(- " + new(big.Int).Neg(n).String() + ")"
	}
	return n.String()
}

// StrLit renders a Go string as an SMT-LIB 2.6 string literal (bytes are
// identified with code points < 256).
func StrLit(s string) string {
	var b strings.Builder
	b.WriteByte('"')
	for i := 0; i < len(s); i++ {
		c := s[i]
		switch {
		case c == '"':
			b.WriteString(`""`)
		case c == '\\':
			b.WriteString(`\u{5c}`)
		case c >= 0x20 && c < 0x7f:
			b.WriteByte(c)
		default:
			fmt.Fprintf(&b, `\u{%x}`, c)
		}
	}
	b.WriteByte('"')
	return b.String()
}

// Sym quotes a symbol if needed.
func Sym(s string) string {
	simple := s != ""
	for i := 0; i < len(s); i++ {
		c := s[i]
		if !(c >= 'a' && c <= 'z' || c >= 'A' && c <= 'Z' || c >= '0' && c <= '9' || strings.IndexByte("_!.$%&*+-/<=>?@^~", c) >= 0) {
			simple = false
			break
		}
	}
	if simple && !(s[0] >= '0' && s[0] <= '9') {
		return s
	}
	s = strings.NewReplacer("|", "¦", "\\", "/").Replace(s)
	return "|" + s + "|"
}

// symbolsOf returns the set of symbols (identifiers, quoted or plain)
// occurring in an s-expression string.
func symbolsOf(t string, into map[string]bool) {
	i := 0
	n := len(t)
	for i < n {
		c := t[i]
		switch {
		case c == '"':
			i++
			for i < n {
				if t[i] == '"' {
					if i+1 < n && t[i+1] == '"' {
						i += 2
						continue
					}
					break
				}
				i++
			}
			i++
		case c == '|':
			j := i + 1
			for j < n && t[j] != '|' {
				j++
			}
			into[t[i:j+1]] = true
			i = j + 1
		case c == '(' || c == ')' || c == ' ' || c == '\n' || c == '\t':
			i++
		case c == ';':
			for i < n && t[i] != '\n' {
				i++
			}
		default:
			j := i
			for j < n && !strings.ContainsRune("() \n\t\"|;", rune(t[j])) {
				j++
			}
			tok := t[i:j]
			if !(tok[0] >= '0' && tok[0] <= '9') {
				into[tok] = true
			}
			i = j
		}
	}
}

// ---------------------------------------------------------------------------
// Script: an ordered set of declarations and background facts with
// cone-of-influence slicing.

type item struct {
	text    string   // full SMT-LIB command(s)
	defines []string // symbols this item introduces
	uses    map[string]bool
	axiom   bool // included when any used symbol is in the cone
	always  bool
	early   bool // sort declarations: emitted before everything else
}

type Script struct {
	items   []*item
	bySym   map[string]*item
	counter int
}

func NewScript() *Script { return &Script{bySym: map[string]*item{}} }

func (s *Script) Has(sym string) bool { return s.bySym[sym] != nil }

func (s *Script) add(it *item) {
	s.items = append(s.items, it)
	for _, d := range it.defines {
		s.bySym[d] = it
	}
}

// Raw adds raw commands that are always emitted (prelude).
func (s *Script) Raw(text string, defines ...string) {
	it := &item{text: text, defines: defines, uses: map[string]bool{}, always: true}
	s.add(it)
}

// Decl declares an uninterpreted constant or function.
func (s *Script) Decl(sym string, argSorts []string, resSort string) {
	if s.Has(sym) {
		return
	}
	it := &item{defines: []string{sym}, uses: map[string]bool{}}
	if len(argSorts) == 0 {
		it.text = fmt.Sprintf("(declare-const %s %s)", sym, resSort)
	} else {
		it.text = fmt.Sprintf("(declare-fun %s (%s) %s)", sym, strings.Join(argSorts, " "), resSort)
	}
	symbolsOf(resSort, it.uses)
	for _, a := range argSorts {
		symbolsOf(a, it.uses)
	}
	s.add(it)
}

// Def declares a constant and asserts its defining equation.
func (s *Script) Def(sym, sort, term string) {
	if s.Has(sym) {
		panic("redefinition of " + sym)
	}
	it := &item{defines: []string{sym}, uses: map[string]bool{}}
	it.text = fmt.Sprintf("(declare-const %s %s)\n(assert (= %s %s))", sym, sort, sym, term)
	symbolsOf(term, it.uses)
	symbolsOf(sort, it.uses)
	s.add(it)
}

// Fresh returns a fresh symbol name with the given prefix.
func (s *Script) Fresh(prefix string) string {
	s.counter++
	return Sym(fmt.Sprintf("%s~%d", prefix, s.counter))
}

// Axiom adds a background fact that is included in a query when it shares a
// trigger symbol with the query's cone.
func (s *Script) Axiom(term string, triggers ...string) {
	it := &item{axiom: true, uses: map[string]bool{}}
	it.text = "(assert " + term + ")"
	symbolsOf(term, it.uses)
	if len(triggers) > 0 {
		it.defines = triggers // reused as trigger list for axioms
	}
	s.items = append(s.items, it)
}

// RawItem adds a sliceable raw command defining the given symbols.
func (s *Script) RawItem(text string, defines []string) {
	it := &item{text: text, defines: defines, uses: map[string]bool{}}
	symbolsOf(text, it.uses)
	for _, d := range defines {
		delete(it.uses, d)
	}
	s.add(it)
}

// Slice renders the part of the script relevant to the given terms.
func (s *Script) Slice(terms ...string) string {
	cone := map[string]bool{}
	var work []string
	push := func(m map[string]bool) {
		for k := range m {
			if !cone[k] {
				cone[k] = true
				work = append(work, k)
			}
		}
	}
	for _, t := range terms {
		m := map[string]bool{}
		symbolsOf(t, m)
		push(m)
	}
	inc := map[*item]bool{}
	for {
		for len(work) > 0 {
			k := work[len(work)-1]
			work = work[:len(work)-1]
			if it := s.bySym[k]; it != nil && !inc[it] {
				inc[it] = true
				push(it.uses)
			}
		}
		changed := false
		for _, it := range s.items {
			if !it.axiom || inc[it] {
				continue
			}
			hit := false
			if len(it.defines) > 0 {
				hit = true
				for _, tr := range it.defines {
					if !cone[tr] {
						hit = false
						break
					}
				}
			} else {
				// all non-builtin symbols must be in cone
				hit = true
				for u := range it.uses {
					if s.bySym[u] != nil && !cone[u] {
						hit = false
						break
					}
				}
			}
			if hit {
				inc[it] = true
				push(it.uses)
				changed = true
			}
		}
		if !changed && len(work) == 0 {
			break
		}
	}
	var b strings.Builder
	for _, it := range s.items {
		if it.always {
			b.WriteString(it.text)
			b.WriteByte('\n')
		}
	}
	// datatype declarations in dependency order (a struct may embed another)
	emitted := map[*item]bool{}
	var emitSort func(it *item)
	emitSort = func(it *item) {
		if emitted[it] {
			return
		}
		emitted[it] = true
		for u := range it.uses {
			if d := s.bySym[u]; d != nil && d.early && d != it {
				if !inc[d] {
					inc[d] = true
				}
				emitSort(d)
			}
		}
		b.WriteString(it.text)
		b.WriteByte('\n')
	}
	for _, it := range s.items {
		if it.early && inc[it] {
			emitSort(it)
		}
	}
	for _, it := range s.items {
		if !it.always && !it.early && inc[it] {
			b.WriteString(it.text)
			b.WriteByte('\n')
		}
	}
	return b.String()
}

// SortItem adds a sort (datatype) declaration.
func (s *Script) SortItem(text string, defines []string) {
	it := &item{text: text, defines: defines, uses: map[string]bool{}, early: true}
	symbolsOf(text, it.uses)
	for _, d := range defines {
		delete(it.uses, d)
	}
	s.add(it)
}

func sortedKeys(m map[string]bool) []string {
	var ks []string
	for k := range m {
		ks = append(ks, k)
	}
	sort.Strings(ks)
	return ks
}
