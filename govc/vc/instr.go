package vc

import (
	"fmt"
	"go/ast"
	"go/token"
	"go/types"

	"golang.org/x/tools/go/ssa"
)

func (fc *fnCtx) instr(ins ssa.Instruction, st *State) {
	switch ins := ins.(type) {
	case *ssa.DebugRef:
		// remember the value of source-level locals so that loop invariants can name them
		if id, ok := ins.Expr.(*ast.Ident); ok && ins.IsAddr {
			// an addressable local: remember its address; struct locals can be used as selector bases
			if v, ok := fc.vals[ins.X]; ok && v.Addr == nil && v.T != "" {
				fc.locals[id.Name] = v
				fc.localIsAddr[id.Name] = true
				st.setLocal(id.Name, v, true)
			}
		} else if id, ok := ins.Expr.(*ast.Ident); ok && !ins.IsAddr {
			delete(fc.localIsAddr, id.Name)
			if v, ok := fc.vals[ins.X]; ok && v.Addr == nil && len(v.Tup) == 0 {
				fc.locals[id.Name] = v
				st.setLocal(id.Name, v, false)
			} else if c, ok := ins.X.(*ssa.Const); ok {
				fc.locals[id.Name] = fc.constVal(c)
				st.setLocal(id.Name, fc.constVal(c), false)
			}
		}
	case *ssa.Alloc:
		fc.doAlloc(ins, st)
	case *ssa.UnOp:
		fc.doUnOp(ins, st)
	case *ssa.BinOp:
		fc.doBinOp(ins, st)
	case *ssa.Store:
		p := fc.get(ins.Addr)
		v := fc.get(ins.Val)
		if v.Addr != nil {
			bail("storing a field/element address")
		}
		if p.Addr == nil {
			fc.safe(st, "nil", Not(Eq(p.T, "nilR")), ins.Pos())
		}
		fc.storeThrough(st, p, v.T)
	case *ssa.FieldAddr:
		x := fc.get(ins.X)
		if x.Addr == nil {
			fc.safe(st, "nil", Not(Eq(x.T, "nilR")), ins.Pos())
		}
		st0 := ins.X.Type().Underlying().(*types.Pointer).Elem()
		fc.vals[ins] = fc.fieldAddr(x, st0, ins.Field)
		if fc.con != nil && len(fc.con.LoadAsserts) > 0 && fc.noOblige == 0 {
			if nt, ok := st0.(*types.Named); ok {
				key := nt.Obj().Name() + "." + st0.Underlying().(*types.Struct).Field(ins.Field).Name()
				for _, la := range fc.con.LoadAsserts {
					if la.Callee == key {
						env := fc.envAt(st, fc.entry)
						env.useLocals = true
						fc.oblige(st, "loadassert."+key, fc.evalClause(env, la.Clause), ins.Pos(), nil, la.Clause.Text)
					}
				}
			}
		}
	case *ssa.Field:
		x := fc.get(ins.X)
		si := fc.so.structOf(ins.X.Type())
		fc.define(ins, App(si.fields[ins.Field], x.T), ins.Type())
	case *ssa.IndexAddr:
		x := fc.get(ins.X)
		i := fc.get(ins.Index)
		switch u := ins.X.Type().Underlying().(type) {
		case *types.Slice:
			if ld, ok := ins.X.(*ssa.UnOp); ok {
				if g, ok := ld.X.(*ssa.Global); ok && g.Name() == "Typ" && g.Pkg != nil && g.Pkg.Pkg.Path() == "go/types" {
					fc.safe(st, "index", And(App("<=", "0", i.T), App("<=", i.T, "25")), ins.Pos())
					fc.vals[ins] = fc.indexAddrSlice(x, u.Elem(), i.T)
					return
				}
			}
			fc.safe(st, "index", And(App("<=", "0", i.T), App("<", i.T, App("slen", x.T))), ins.Pos())
			fc.vals[ins] = fc.indexAddrSlice(x, u.Elem(), i.T)
		case *types.Pointer:
			arr := u.Elem().Underlying().(*types.Array)
			if x.Addr == nil {
				fc.safe(st, "nil", Not(Eq(x.T, "nilR")), ins.Pos())
			}
			fc.safe(st, "index", And(App("<=", "0", i.T), App("<", i.T, fmt.Sprint(arr.Len()))), ins.Pos())
			fc.vals[ins] = fc.indexAddrArr(x, arr, i.T)
		default:
			bail("IndexAddr on %s", typeKey(ins.X.Type()))
		}
	case *ssa.Index:
		x := fc.get(ins.X)
		i := fc.get(ins.Index)
		switch u := ins.X.Type().Underlying().(type) {
		case *types.Array:
			fc.safe(st, "index", And(App("<=", "0", i.T), App("<", i.T, fmt.Sprint(u.Len()))), ins.Pos())
			fc.define(ins, Select(x.T, i.T), ins.Type())
		case *types.Basic: // string
			fc.safe(st, "index", And(App("<=", "0", i.T), App("<", i.T, App("str.len", x.T))), ins.Pos())
			fc.define(ins, App("str.to_code", App("str.at", x.T, i.T)), ins.Type())
		default:
			bail("Index on %s", typeKey(ins.X.Type()))
		}
	case *ssa.Lookup:
		fc.doLookup(ins, st)
	case *ssa.Slice:
		fc.doSlice(ins, st)
	case *ssa.Extract:
		t := fc.get(ins.Tuple)
		if ins.Index >= len(t.Tup) {
			bail("extract from non-tuple")
		}
		fc.vals[ins] = t.Tup[ins.Index]
	case *ssa.ChangeType:
		x := fc.get(ins.X)
		x.Typ = ins.Type()
		fc.vals[ins] = x
	case *ssa.ChangeInterface:
		x := fc.get(ins.X)
		x.Typ = ins.Type()
		fc.vals[ins] = x
	case *ssa.MakeInterface:
		fc.doMakeInterface(ins, st)
	case *ssa.TypeAssert:
		fc.doTypeAssert(ins, st)
	case *ssa.Convert:
		fc.doConvert(ins, st)
	case *ssa.Call:
		fc.doCall(ins, st)
	case *ssa.MakeSlice:
		fc.doMakeSlice(ins, st)
	case *ssa.MakeMap:
		r := fc.newRef(st)
		m := ins.Type().Underlying().(*types.Map)
		d, _ := fc.mapHeaps(m)
		ks := fc.so.sortOf(m.Key())
		fc.setH(st, d, Store(fc.H(st, d), r, fmt.Sprintf("((as const (Array %s Bool)) false)", ks)))
		fc.vals[ins] = Val{T: r, Sort: "Ref", Typ: ins.Type()}
	case *ssa.MapUpdate:
		m := fc.get(ins.Map)
		mt, ok := ins.Map.Type().Underlying().(*types.Map)
		if !ok {
			bail("MapUpdate on non-map")
		}
		fc.safe(st, "mapnil", Not(Eq(m.T, "nilR")), ins.Pos())
		d, v := fc.mapHeaps(mt)
		k := fc.get(ins.Key)
		x := fc.get(ins.Value)
		hd, hv := fc.H(st, d), fc.H(st, v)
		fc.setH(st, d, Store(hd, m.T, Store(Select(hd, m.T), k.T, "true")))
		fc.setH(st, v, Store(hv, m.T, Store(Select(hv, m.T), k.T, x.T)))
	case *ssa.MakeClosure:
		r := fc.newRef(st)
		fc.vals[ins] = Val{T: r, Sort: "Ref", Typ: ins.Type()}
		// a closure may later write captured variables: bindings that are
		// addresses of locals escape
		for _, b := range ins.Bindings {
			if bv := fc.get(b); bv.Addr != nil {
				bail("closure captures field/element address")
			}
		}
		fc.closures = append(fc.closures, ins)
	case *ssa.Range:
		x := fc.get(ins.X)
		fc.vals[ins] = Val{T: x.T, Sort: x.Sort, Typ: ins.X.Type()}
	case *ssa.Next:
		fc.doNext(ins, st)
	case *ssa.RunDefers:
		fc.runDefers(st)
	case *ssa.Defer:
		fc.doDefer(ins, st)
	case *ssa.Go, *ssa.Send, *ssa.Select, *ssa.MakeChan:
		bail("concurrency construct %T", ins)
	case *ssa.SliceToArrayPointer, *ssa.MultiConvert:
		bail("unsupported instruction %T", ins)
	default:
		bail("unsupported instruction %T", ins)
	}
}

// typesTyp models types.Typ[k] through the pseudo external function go/types.Typ#index.
func (fc *fnCtx) typesTyp(st *State, k Val, pos token.Pos) Val {
	tp := fc.g.pkgByPath["go/types"]
	basic := tp.Scope().Lookup("Basic").Type()
	ce := &callee{name: "go/types.Typ#index", pkg: tp, external: true, params: []string{"k"}, ptypes: []types.Type{types.Typ[types.Int]}}
	ce.con = fc.g.CS.ByFunc["ext::go/types.Typ#index"]
	if ce.con == nil {
		bail("no contract for go/types.Typ#index")
	}
	fc.g.trustedUsed[ce.name] = true
	return fc.pureApp(ce, ce.con, []Val{k}, types.NewPointer(basic))
}

func (fc *fnCtx) doAlloc(ins *ssa.Alloc, st *State) {
	et := ins.Type().Underlying().(*types.Pointer).Elem()
	r := fc.newRef(st)
	switch u := et.Underlying().(type) {
	case *types.Struct:
		fc.storeStruct(st, r, et, fc.so.zero(et))
	case *types.Array:
		h := fc.elemHeap(u.Elem())
		fc.setH(st, h, Store(fc.H(st, h), r, fc.so.zero(et)))
	default:
		h := fc.cellHeap(et)
		fc.setH(st, h, Store(fc.H(st, h), r, fc.so.zero(et)))
	}
	fc.vals[ins] = Val{T: r, Sort: "Ref", Typ: ins.Type()}
}

func (fc *fnCtx) doUnOp(ins *ssa.UnOp, st *State) {
	x := fc.get(ins.X)
	switch ins.Op {
	case token.MUL:
		if x.Addr == nil {
			fc.safe(st, "nil", Not(Eq(x.T, "nilR")), ins.Pos())
		}
		if g, ok := ins.X.(*ssa.Global); ok {
			if v, ok := fc.globalInit(g, st); ok {
				fc.vals[ins] = v
				return
			}
		}
		if ia, ok := ins.X.(*ssa.IndexAddr); ok {
			if ld, ok := ia.X.(*ssa.UnOp); ok {
				if g, ok := ld.X.(*ssa.Global); ok && g.Name() == "Typ" && g.Pkg != nil && g.Pkg.Pkg.Path() == "go/types" {
					fc.vals[ins] = fc.typesTyp(st, fc.get(ia.Index), ins.Pos())
					return
				}
			}
		}
		v := fc.deref(st, x)
		d := fc.define(ins, v.T, ins.Type())
		fc.assume(st, fc.valInv(st, ins.Type(), d.T))
	case token.NOT:
		fc.define(ins, Not(x.T), ins.Type())
	case token.SUB:
		if x.Sort == "Real" {
			fc.define(ins, App("-", x.T), ins.Type())
			return
		}
		t := App("-", x.T)
		if isUnsigned(ins.Type()) {
			t = App("mod", t, uintModulus(ins.Type()))
		}
		fc.define(ins, t, ins.Type())
	case token.XOR:
		// ^x == -x-1 (two's complement) for signed; unsigned: max - x
		if isUnsigned(ins.Type()) {
			fc.define(ins, App("-", App("-", uintModulus(ins.Type()), "1"), x.T), ins.Type())
		} else {
			fc.define(ins, App("-", App("-", x.T), "1"), ins.Type())
		}
	case token.ARROW:
		bail("channel receive")
	default:
		bail("unop %s", ins.Op)
	}
}

func pow2(n int64) string {
	r := int64(1)
	if n < 0 || n > 62 {
		return ""
	}
	for i := int64(0); i < n; i++ {
		r *= 2
	}
	return fmt.Sprint(r)
}

func constInt(v ssa.Value) (int64, bool) {
	c, ok := v.(*ssa.Const)
	if !ok || c.Value == nil {
		return 0, false
	}
	return c.Int64(), c.Value.Kind() == 3 // constant.Int
}

// bitAnd encodes x & c for a non-negative constant c as linear arithmetic over div/mod.
func bitAndConst(x string, c int64) string {
	if c == 0 {
		return "0"
	}
	var terms []string
	for b := int64(0); b < 62; b++ {
		if c&(1<<uint(b)) != 0 {
			p := pow2(b)
			terms = append(terms, App("*", p, App("mod", App("div", x, p), "2")))
		}
	}
	if len(terms) == 1 {
		return terms[0]
	}
	return App("+", terms...)
}

func (fc *fnCtx) doBinOp(ins *ssa.BinOp, st *State) {
	x, y := fc.get(ins.X), fc.get(ins.Y)
	if x.Addr != nil || y.Addr != nil {
		var ok1, ok2 bool
		x, ok1 = fc.materialize(x)
		y, ok2 = fc.materialize(y)
		if !ok1 || !ok2 {
			bail("comparison of field addresses")
		}
	}
	xt := ins.X.Type()
	var t string
	switch ins.Op {
	case token.EQL:
		t = fc.eq(st, x, y, xt, ins.Y.Type())
	case token.NEQ:
		t = Not(fc.eq(st, x, y, xt, ins.Y.Type()))
	case token.LSS, token.LEQ, token.GTR, token.GEQ:
		op := map[token.Token]string{token.LSS: "<", token.LEQ: "<=", token.GTR: ">", token.GEQ: ">="}[ins.Op]
		if x.Sort == "String" {
			switch ins.Op {
			case token.LSS:
				t = App("str.<", x.T, y.T)
			case token.LEQ:
				t = App("str.<=", x.T, y.T)
			case token.GTR:
				t = App("str.<", y.T, x.T)
			case token.GEQ:
				t = App("str.<=", y.T, x.T)
			}
		} else {
			t = App(op, x.T, y.T)
		}
	case token.ADD:
		if x.Sort == "String" {
			t = App("str.++", x.T, y.T)
		} else {
			t = fc.wrap(ins.Type(), App("+", x.T, y.T))
		}
	case token.SUB:
		t = fc.wrap(ins.Type(), App("-", x.T, y.T))
	case token.MUL:
		t = fc.wrap(ins.Type(), App("*", x.T, y.T))
	case token.QUO:
		if x.Sort == "Real" {
			t = App("/", x.T, y.T)
		} else {
			fc.safe(st, "div", Not(Eq(y.T, "0")), ins.Pos())
			// Go truncates toward zero
			t = goDiv(x.T, y.T)
		}
	case token.REM:
		fc.safe(st, "div", Not(Eq(y.T, "0")), ins.Pos())
		t = App("-", x.T, App("*", y.T, goDiv(x.T, y.T)))
	case token.AND:
		if c, ok := constInt(ins.Y); ok && c >= 0 {
			t = bitAndConst(x.T, c)
		} else if c, ok := constInt(ins.X); ok && c >= 0 {
			t = bitAndConst(y.T, c)
		} else {
			t = App("int_and", x.T, y.T)
		}
	case token.OR:
		if c, ok := constInt(ins.Y); ok && c >= 0 {
			t = App("-", App("+", x.T, fmt.Sprint(c)), bitAndConst(x.T, c))
		} else {
			t = App("int_or", x.T, y.T)
		}
	case token.XOR:
		t = App("int_xor", x.T, y.T)
	case token.AND_NOT:
		if c, ok := constInt(ins.Y); ok && c >= 0 {
			t = App("-", x.T, bitAndConst(x.T, c))
		} else {
			t = App("-", x.T, App("int_and", x.T, y.T))
		}
	case token.SHL:
		if c, ok := constInt(ins.Y); ok && pow2(c) != "" {
			t = fc.wrap(ins.Type(), App("*", x.T, pow2(c)))
		} else {
			t = App("int_shl", x.T, y.T)
		}
	case token.SHR:
		if c, ok := constInt(ins.Y); ok && pow2(c) != "" {
			t = App("div", x.T, pow2(c))
		} else {
			t = App("int_shr", x.T, y.T)
		}
	default:
		bail("binop %s", ins.Op)
	}
	fc.define(ins, t, ins.Type())
}

func goDiv(x, y string) string {
	// SMT div is floor for positive divisor / euclidean; Go truncates.
	return Ite(App(">=", x, "0"),
		Ite(App(">", y, "0"), App("div", x, y), App("-", App("div", x, App("-", y)))),
		Ite(App(">", y, "0"), App("-", App("div", App("-", x), y)), App("div", App("-", x), App("-", y))))
}

// wrap applies unsigned wrap-around; signed arithmetic is mathematical.
func (fc *fnCtx) wrap(t types.Type, term string) string {
	if isUnsigned(t) {
		return App("mod", term, uintModulus(t))
	}
	return term
}

func (fc *fnCtx) eq(st *State, x, y Val, xt, yt types.Type) string {
	if x.Sort != y.Sort {
		bail("comparison of different sorts %s %s", x.Sort, y.Sort)
	}
	return Eq(x.T, y.T)
}

func (fc *fnCtx) doLookup(ins *ssa.Lookup, st *State) {
	x := fc.get(ins.X)
	k := fc.get(ins.Index)
	switch u := ins.X.Type().Underlying().(type) {
	case *types.Basic:
		fc.safe(st, "index", And(App("<=", "0", k.T), App("<", k.T, App("str.len", x.T))), ins.Pos())
		fc.define(ins, App("str.to_code", App("str.at", x.T, k.T)), ins.Type())
	case *types.Map:
		d, v := fc.mapHeaps(u)
		in := Select(Select(fc.H(st, d), x.T), k.T)
		// a nil map has an empty domain
		in = And(Not(Eq(x.T, "nilR")), in)
		val := Ite(in, Select(Select(fc.H(st, v), x.T), k.T), fc.so.zero(u.Elem()))
		if ins.CommaOk {
			a := fc.sc.Fresh(fc.fn.Name() + "." + ins.Name() + ".v")
			fc.sc.Def(a, fc.so.sortOf(u.Elem()), val)
			b := fc.sc.Fresh(fc.fn.Name() + "." + ins.Name() + ".ok")
			fc.sc.Def(b, "Bool", in)
			fc.assume(st, fc.valInv(st, u.Elem(), a))
			fc.vals[ins] = Val{Typ: ins.Type(), Tup: []Val{{T: a, Sort: fc.so.sortOf(u.Elem()), Typ: u.Elem()}, {T: b, Sort: "Bool", Typ: types.Typ[types.Bool]}}}
		} else {
			d := fc.define(ins, val, ins.Type())
			fc.assume(st, fc.valInv(st, u.Elem(), d.T))
		}
	default:
		bail("Lookup on %s", typeKey(ins.X.Type()))
	}
}

func (fc *fnCtx) doSlice(ins *ssa.Slice, st *State) {
	x := fc.get(ins.X)
	var lo, hi, max string
	lo = "0"
	if ins.Low != nil {
		lo = fc.get(ins.Low).T
	}
	switch u := ins.X.Type().Underlying().(type) {
	case *types.Slice:
		hi = App("slen", x.T)
		if ins.High != nil {
			hi = fc.get(ins.High).T
		}
		capT := App("scap", x.T)
		max = capT
		if ins.Max != nil {
			max = fc.get(ins.Max).T
			fc.safe(st, "slice", And(App("<=", "0", lo), App("<=", lo, hi), App("<=", hi, max), App("<=", max, capT)), ins.Pos())
		} else {
			fc.safe(st, "slice", And(App("<=", "0", lo), App("<=", lo, hi), App("<=", hi, capT)), ins.Pos())
		}
		// slicing a nil slice yields nil
		t := Ite(Eq(x.T, "nilS"), "nilS", App("mkS", App("sarr", x.T), App("+", App("soff", x.T), lo), App("-", hi, lo), App("-", max, lo)))
		d := fc.define(ins, t, ins.Type())
		if rb, ok := fc.sliceBase[x.T]; ok {
			fc.sliceBase[d.T] = sliceBaseRec{off: rb.off, delta: App("+", rb.delta, lo)}
		} else {
			fc.sliceBase[d.T] = sliceBaseRec{off: App("soff", x.T), delta: lo}
		}
	case *types.Basic:
		hi = App("str.len", x.T)
		if ins.High != nil {
			hi = fc.get(ins.High).T
		}
		fc.safe(st, "slice", And(App("<=", "0", lo), App("<=", lo, hi), App("<=", hi, App("str.len", x.T))), ins.Pos())
		fc.define(ins, App("str.substr", x.T, lo, App("-", hi, lo)), ins.Type())
	case *types.Pointer:
		arr := u.Elem().Underlying().(*types.Array)
		if x.Addr != nil {
			bail("slicing an array stored by value")
		}
		n := fmt.Sprint(arr.Len())
		hi = n
		if ins.High != nil {
			hi = fc.get(ins.High).T
		}
		max = n
		if ins.Max != nil {
			max = fc.get(ins.Max).T
		}
		fc.safe(st, "nil", Not(Eq(x.T, "nilR")), ins.Pos())
		fc.safe(st, "slice", And(App("<=", "0", lo), App("<=", lo, hi), App("<=", hi, max), App("<=", max, n)), ins.Pos())
		fc.define(ins, App("mkS", x.T, lo, App("-", hi, lo), App("-", max, lo)), ins.Type())
	default:
		bail("Slice on %s", typeKey(ins.X.Type()))
	}
}

func (fc *fnCtx) doMakeInterface(ins *ssa.MakeInterface, st *State) {
	x := fc.get(ins.X)
	ct := ins.X.Type()
	fc.vals[ins] = fc.makeIface(st, x, ct, ins.Type())
}

func (fc *fnCtx) makeIface(st *State, x Val, ct types.Type, it types.Type) Val {
	var payload string
	if x.Addr != nil {
		payload = ""
	} else {
		payload = fc.so.boxTry(ct, x.T)
	}
	if payload == "" {
		// opaque payload (struct values, slices, floats...)
		sym := fc.sc.Fresh("box")
		fc.sc.Decl(sym, nil, "Ref")
		payload = sym
		fc.note("boxed %s into an interface as an opaque payload", typeKey(ct))
	}
	return Val{T: App("mkI", fc.so.tagTerm(ct), payload), Sort: "Iface", Typ: it}
}

func (s *sorter) boxTry(t types.Type, v string) (r string) {
	defer func() {
		if e := recover(); e != nil {
			if _, ok := e.(unsupported); ok {
				r = ""
				return
			}
			panic(e)
		}
	}()
	return s.box(t, v)
}

func (fc *fnCtx) doTypeAssert(ins *ssa.TypeAssert, st *State) {
	x := fc.get(ins.X)
	at := ins.AssertedType
	var ok, val string
	if types.IsInterface(at) {
		ok = And(Not(Eq(x.T, "nilI")), fc.implements(App("itag", x.T), at))
		val = x.T
		if iface, _ := at.Underlying().(*types.Interface); iface != nil && iface.Empty() {
			ok = Not(Eq(x.T, "nilI"))
		}
		// static knowledge: asserting to a supertype of the static type always succeeds for non-nil
		if types.IsInterface(ins.X.Type()) && types.Implements(ins.X.Type(), at.Underlying().(*types.Interface)) {
			ok = Not(Eq(x.T, "nilI"))
		}
	} else {
		ok = Eq(App("itag", x.T), fc.so.tagTerm(at))
		u := fc.so.unboxTry(at, App("iref", x.T))
		if u == "" {
			sym := fc.sc.Fresh("unbox")
			fc.sc.Decl(sym, nil, fc.so.sortOf(at))
			u = sym
		}
		val = u
	}
	if ins.CommaOk {
		okS := fc.sc.Fresh(fc.fn.Name() + "." + ins.Name() + ".ok")
		fc.sc.Def(okS, "Bool", ok)
		v := Ite(okS, val, fc.so.zero(at))
		vS := fc.sc.Fresh(fc.fn.Name() + "." + ins.Name() + ".v")
		fc.sc.Def(vS, fc.so.sortOf(at), v)
		fc.vals[ins] = Val{Typ: ins.Type(), Tup: []Val{{T: vS, Sort: fc.so.sortOf(at), Typ: at}, {T: okS, Sort: "Bool", Typ: types.Typ[types.Bool]}}}
		return
	}
	fc.safe(st, "assert", ok, ins.Pos())
	fc.define(ins, val, at)
}

func (s *sorter) unboxTry(t types.Type, v string) (r string) {
	defer func() {
		if e := recover(); e != nil {
			if _, ok := e.(unsupported); ok {
				r = ""
				return
			}
			panic(e)
		}
	}()
	return s.unbox(t, v)
}

// implements: does a dynamic type tag implement the interface type?
func (fc *fnCtx) implements(tag string, it types.Type) string {
	sym := Sym("impl!" + typeKey(it))
	fc.sc.Decl(sym, []string{"Int"}, "Bool")
	fc.implSyms[sym] = it
	return App(sym, tag)
}

// finishImplements emits ground facts about which known tags implement
// which interfaces (called once all tags are known).
func (fc *fnCtx) finishImplements() {
	for _, sym := range sortedKeysT(fc.implSyms) {
		it := fc.implSyms[sym]
		iface := it.Underlying().(*types.Interface)
		for _, ct := range fc.so.tagList {
			v := "false"
			if types.Implements(ct, iface) {
				v = "true"
			}
			fc.sc.Axiom(Eq(App(sym, fc.so.tagTerm(ct)), v), sym)
		}
	}
}

func sortedKeysT(m map[string]types.Type) []string {
	x := map[string]bool{}
	for k := range m {
		x[k] = true
	}
	return sortedKeys(x)
}

func (fc *fnCtx) doConvert(ins *ssa.Convert, st *State) {
	x := fc.get(ins.X)
	from, to := ins.X.Type(), ins.Type()
	fs, ts := fc.so.sortOf(from), fc.so.sortOf(to)
	switch {
	case fs == "Int" && ts == "Int":
		lo, hi, ok := intRange(to)
		if !ok {
			fc.define(ins, x.T, to)
			return
		}
		flo, fhi, _ := intRange(from)
		if flo == lo && fhi == hi {
			fc.define(ins, x.T, to)
			return
		}
		if isUnsigned(to) {
			fc.define(ins, App("mod", x.T, uintModulus(to)), to)
			return
		}
		// signed narrowing or unsigned->signed: identity when in range, else opaque
		w := fc.sc.Fresh("wrapconv")
		fc.sc.Decl(w, nil, "Int")
		fc.assume(st, And(App("<=", lo, w), App("<=", w, hi)))
		fc.define(ins, Ite(And(App("<=", lo, x.T), App("<=", x.T, hi)), x.T, w), to)
	case fs == ts && fs != "Slice":
		fc.define(ins, x.T, to)
	case fs == "Int" && ts == "Real":
		fc.define(ins, App("to_real", x.T), to)
	case fs == "Ref" && ts == "Ref":
		fc.define(ins, x.T, to)
	case fs == "Int" && ts == "String":
		// string(rune): one byte for ASCII code points (strings are byte sequences here); opaque otherwise
		w := fc.freshVal(st, "conv", to)
		fc.define(ins, Ite(And(App("<=", "0", x.T), App("<", x.T, "128")), App("str.from_code", x.T), w.T), to)
	default:
		// string <-> []byte, float -> int ...: opaque
		v := fc.freshVal(st, "conv", to)
		fc.vals[ins] = v
		fc.note("conversion %s -> %s treated as opaque", typeKey(from), typeKey(to))
	}
}

func (fc *fnCtx) doMakeSlice(ins *ssa.MakeSlice, st *State) {
	l, c := fc.get(ins.Len), fc.get(ins.Cap)
	fc.safe(st, "makeslice", And(App("<=", "0", l.T), App("<=", l.T, c.T)), ins.Pos())
	r := fc.newRef(st)
	et := ins.Type().Underlying().(*types.Slice).Elem()
	h := fc.elemHeap(et)
	fc.setH(st, h, Store(fc.H(st, h), r, fc.so.zero(types.NewArray(et, 0))))
	fc.define(ins, App("mkS", r, "0", l.T, c.T), ins.Type())
}

func (fc *fnCtx) doNext(ins *ssa.Next, st *State) {
	rng := ins.Iter.(*ssa.Range)
	x := fc.get(ins.Iter)
	okS := fc.sc.Fresh(fc.fn.Name() + "." + ins.Name() + ".ok")
	fc.sc.Decl(okS, nil, "Bool")
	okV := Val{T: okS, Sort: "Bool", Typ: types.Typ[types.Bool]}
	if ins.IsString {
		k := fc.freshVal(st, "rk", types.Typ[types.Int])
		v := fc.freshVal(st, "rv", types.Typ[types.Rune])
		fc.assume(st, Imp(okS, And(App("<=", "0", k.T), App("<", k.T, App("str.len", x.T)))))
		fc.vals[ins] = Val{Typ: ins.Type(), Tup: []Val{okV, k, v}}
		return
	}
	m := rng.X.Type().Underlying().(*types.Map)
	d, vh := fc.mapHeaps(m)
	k := fc.freshVal(st, "rk", m.Key())
	fc.assume(st, Imp(okS, And(Not(Eq(x.T, "nilR")), Select(Select(fc.H(st, d), x.T), k.T))))
	vt := fc.sc.Fresh("rv")
	fc.sc.Def(vt, fc.so.sortOf(m.Elem()), Select(Select(fc.H(st, vh), x.T), k.T))
	fc.assume(st, fc.valInv(st, m.Elem(), vt))
	fc.vals[ins] = Val{Typ: ins.Type(), Tup: []Val{okV, k, {T: vt, Sort: fc.so.sortOf(m.Elem()), Typ: m.Elem()}}}
}
