package vc

import (
	"fmt"
	"io"
	"os"
	"regexp"
	"strings"
	"sync"
	"time"
)

// OblResult is the verdict on one obligation.
type OblResult struct {
	Obl     *Obligation
	Verdict Verdict
	OK      bool // discharged (unsat), or for covers: sat
	Batched bool
	Skipped bool // not part of this run (decided by the checks of the properties that own the clause)
}

type FuncReport struct {
	*FuncResult
	Results []*OblResult
	Missing bool // contract target not found
	Wall    float64
}

// Run holds the solver configuration and a cache of function reports.
type Run struct {
	G       *Gen
	Dir     string
	Timeout time.Duration
	Seed    int
	mu      sync.Mutex
	genMu   sync.Mutex
	cache   map[*Contract]*FuncReport
	Workers int
	// Only, when set, restricts discharging to the obligations it accepts (the others are reported as skipped)
	Only func(o *Obligation) bool
}

func NewRun(g *Gen, dir string, timeout time.Duration, seed int) *Run {
	return &Run{G: g, Dir: dir, Timeout: timeout, Seed: seed, cache: map[*Contract]*FuncReport{}, Workers: 16}
}

var tagRe = regexp.MustCompile(`[^A-Za-z0-9_.#-]+`)

func fileTag(s string) string { return tagRe.ReplaceAllString(s, "_") }

// VerifyContract generates and discharges all obligations of one function.
func (r *Run) VerifyContract(con *Contract) *FuncReport {
	r.mu.Lock()
	if fr, ok := r.cache[con]; ok {
		r.mu.Unlock()
		return fr
	}
	r.mu.Unlock()
	t0 := time.Now()
	fn := r.G.FindFunc(con)
	rep := &FuncReport{}
	if fn == nil {
		rep.FuncResult = &FuncResult{Func: con.PkgPath + "::" + con.Func, Contract: con}
		rep.Missing = true
	} else {
		r.genMu.Lock() // generation shares tables in Gen; solving runs in parallel
		rep.FuncResult = r.G.Generate(fn, con)
		r.genMu.Unlock()
		rep.Results = r.discharge(rep.FuncResult)
	}
	rep.Wall = time.Since(t0).Seconds()
	r.mu.Lock()
	r.cache[con] = rep
	r.mu.Unlock()
	return rep
}

func (r *Run) discharge(fr *FuncResult) []*OblResult {
	var proofs, covers []*Obligation
	for _, o := range fr.Obligations {
		if r.Only != nil && !r.Only(o) {
			continue
		}
		if o.Cover {
			covers = append(covers, o)
		} else {
			proofs = append(proofs, o)
		}
	}
	res := make([]*OblResult, len(fr.Obligations))
	idx := map[*Obligation]int{}
	for i, o := range fr.Obligations {
		idx[o] = i
		if r.Only != nil && !r.Only(o) {
			res[i] = &OblResult{Obl: o, Verdict: Verdict{Status: "skipped"}, OK: true, Skipped: true}
		}
	}
	// 1. batch all proof obligations
	batchOK := false
	if len(proofs) > 1 && os.Getenv("GOVC_NOBATCH") == "" {
		bt := 3 * time.Second
		if r.Timeout < bt {
			bt = r.Timeout
		}
		v := Decide(BatchQuery(proofs), r.Dir, fileTag(fr.Func)+"#batch", bt, r.Seed)
		if v.Status != "unsat" && v.Status != "sat" && bt < r.Timeout {
			// undecided in the short budget (a loaded machine): one more attempt with the full budget costs less than
			// deciding every obligation on its own
			v = Decide(BatchQuery(proofs), r.Dir, fileTag(fr.Func)+"#batch2", r.Timeout, r.Seed)
		}
		if v.Status == "unsat" {
			batchOK = true
			for _, o := range proofs {
				res[idx[o]] = &OblResult{Obl: o, Verdict: v, OK: true, Batched: true}
			}
		}
	}
	var todo []*Obligation
	if !batchOK {
		todo = append(todo, proofs...)
	}
	todo = append(todo, covers...)
	ParallelDo(len(todo), r.Workers, func(i int) {
		o := todo[i]
		var v Verdict
		ok := false
		if o.Cover {
			// a cover is expected to be satisfiable; only a refutation (unsat) is a vacuity alarm
			ct := 2 * time.Second
			if os.Getenv("GOVC_WRITE_EXPECTED") != "" || os.Getenv("GOVC_LONGCOVER") != "" {
				ct = 15 * time.Second // the reviewed list of unreachable return points is computed with a generous budget
			}
			v = runSolver(Solvers[0], destring(o.Query(false)), r.Dir, fileTag(o.Name), ct, r.Seed)
			ok = v.Status != "unsat"
			if ok && os.Getenv("GOVC_NOFULLCOVER") == "" {
				// the same path under the whole background of the function (every fact any obligation
				// pulls in): a background fact that kills a path would make the batch verdict vacuous
				v2 := runSolver(Solvers[0], destring(FullCoverQuery(o, fr.Obligations)), r.Dir, fileTag(o.Name)+".full", ct, r.Seed)
				if v2.Status == "unsat" {
					v, ok = v2, false
				}
			}
		} else {
			v = Decide(o.Query(true), r.Dir, fileTag(o.Name), r.Timeout, r.Seed)
			ok = v.Status == "unsat"
		}
		res[idx[o]] = &OblResult{Obl: o, Verdict: v, OK: ok}
	})
	// an obligation that no solver decided in time is retried with a larger budget and little parallelism before it
	// is reported: a loaded machine must not turn into alarms (a refutation, sat, is never retried)
	var again []*Obligation
	for _, o := range todo {
		if r0 := res[idx[o]]; !o.Cover && !r0.OK && r0.Verdict.Status != "sat" {
			again = append(again, o)
		}
	}
	if len(again) > 0 && os.Getenv("GOVC_NORETRY") == "" {
		ParallelDo(len(again), 3, func(i int) {
			o := again[i]
			v := Decide(o.Query(true), r.Dir, fileTag(o.Name)+".retry", 4*r.Timeout, r.Seed+1)
			if v.Status == "unsat" {
				res[idx[o]] = &OblResult{Obl: o, Verdict: v, OK: true}
			} else if v.Status == "sat" {
				res[idx[o]] = &OblResult{Obl: o, Verdict: v, OK: false}
			}
		})
	}
	return res
}

func PrintFuncReport(w io.Writer, fr *FuncReport, verbose bool) {
	if fr.Missing {
		fmt.Fprintf(w, "MISSING  %s (contract target not found)\n", fr.Func)
		return
	}
	if fr.Outside != "" {
		fmt.Fprintf(w, "OUTSIDE  %s: %s\n", fr.Func, fr.Outside)
		return
	}
	nok := 0
	for _, r := range fr.Results {
		if r.OK {
			nok++
		}
	}
	fmt.Fprintf(w, "FUNC     %s: %d/%d obligations ok (%.1fs, %d blocks)\n", fr.Func, nok, len(fr.Results), fr.Wall, fr.Blocks)
	for _, r := range fr.Results {
		st := "ok  "
		if !r.OK {
			st = "FAIL"
		}
		b := ""
		if r.Batched {
			b = " (batch)"
		}
		if !r.OK || verbose {
			fmt.Fprintf(w, "  %s %-60s %s %s %.2fs%s  %s  %s\n", st, r.Obl.Name, r.Verdict.Status, r.Verdict.Solver, r.Verdict.Time, b, r.Obl.Pos, r.Obl.Clause)
		}
		if !r.OK && verbose {
			out := r.Verdict.Output
			if len(out) > 1500 {
				out = out[:1500] + "..."
			}
			fmt.Fprintln(w, "      "+strings.ReplaceAll(out, "\n", "\n      "))
		}
	}
	for _, n := range fr.Notes {
		if verbose {
			fmt.Fprintf(w, "  note: %s\n", n)
		}
	}
}
