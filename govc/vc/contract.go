package vc

import (
	"bufio"
	"fmt"
	"os"
	"regexp"
	"strconv"
	"strings"
)

// Clause is one requires/ensures/invariant expression.
type Clause struct {
	Text  string
	Props []string // properties that own the clause (empty: the function's)
	File  string
	Line  int
}

type LoopSpec struct {
	Entry      []Clause // checked once on loop entry (not assumed, not preserved)
	Invariants []Clause
	Decreases  *Clause
}

type Contract struct {
	PkgPath      string // package whose scope is used to resolve names
	Func         string // function name as printed by ssa (relative to package) or full name for externals
	Props        []string
	Requires     []Clause
	Ensures      []Clause
	Defines      []Clause // ghost-event definitions: assumed at return (and at call sites), e.g. "TE(result, typ)"
	Assigns      []string
	HasAssign    bool
	Loops        map[int]*LoopSpec
	Pure         bool     // no heap effect; result is a deterministic function of the arguments
	ReadOnly     bool     // no heap effect; result unconstrained beyond ensures
	Trusted      bool     // contract is assumed, body not verified (externals, or internal functions marked so)
	NoReturn     bool     // never returns normally
	Partial      bool     // only loop invariants and call-site/load assertions are checked; callee preconditions and safety are assumed
	TrustedFrame bool     // the assigns clause is assumed by callers but not checked against the body
	TEnsures     []Clause // postconditions assumed by callers but not checked against the body (listed as assumptions)
	NoSafety     bool     // do not generate safe.* obligations (function verified for functional clauses only)
	Axioms       []Clause // trusted global facts about a pure external function (quantified with gforall)
	Lemmas       []Clause // assert-style lemmas checked at function entry (pure facts over params)
	Uses         []string // pure helper function contracts to instantiate (unused for now)
	File         string
	Line         int
	CallAsserts  []CallAssert // obligations at call sites of this function's body
	GhostSets    []GhostSet   // function-local ghost flags set at call sites
	CallAssumes  []CallAssert // "assumecall callee: expr": assumed (not proved) at call sites; listed as an assumption in the evidence
	LoadAsserts  []CallAssert // "assertload Struct.field: expr": obligation where the function takes the address of / reads that field
	Params       []string     // for externals without SSA body: parameter names (recv first)
	Ghost        map[string]string
}

// CallAssert: "assertcall callee[cond]: expr" — at every call to callee (where cond over the callee's
// parameters holds) expr must hold; expr ranges over the function's parameters, source-level locals and ghost flags.
type CallAssert struct {
	Callee, Cond string
	Clause       Clause
}

// GhostSet: "ghostset callee[cond] name" — the Boolean ghost flag name (initially false) becomes true at
// every call to callee whose arguments satisfy cond.
type GhostSet struct {
	Callee, Cond, Name string
}

// SpecFn is a specification function written in the contract language.
type SpecFn struct {
	PkgPath string
	Name    string
	Params  []SpecParam
	Result  string // Go type expression or SMT sort name prefixed with '$'
	Def     string // body expression (empty: uninterpreted)
	Reads   []string
	NoHeap  bool // recursive spec function that does not read the heap
	Opaque  bool // non-recursive, kept as a symbol with a quantified, trigger-based definitional axiom
	Rec     bool // recursion point: kept as an uninterpreted symbol and unfolded to a fixed depth; other spec functions are macros
	File    string
	Line    int
}

type SpecParam struct{ Name, Type string }

type ContractSet struct {
	ByFunc   map[string]*Contract // key: pkgpath + "::" + func, or "ext::" + full name
	Specs    map[string]*SpecFn   // by name
	Order    []*Contract
	Defaults map[string]string // external package path -> pure | readonly
	Files    []string
	Sites    []SiteDecl // reviewed sources of nondeterminism (C15) and writes to package-level state (C18)
}

// SiteDecl: "site <func> <kind> <count> <proved|reviewed>: <reason>" — accounts for <count> sites of the given
// kind in the function. "proved": an order-fixing obligation in the function's own contract (same property)
// covers it; "reviewed": an argument the verifier does not check (reported as an assumption).
type SiteDecl struct {
	Func, Kind  string
	Count       int
	Disposition string
	Reason      string
	File        string
	Line        int
}

func NewContractSet() *ContractSet {
	return &ContractSet{ByFunc: map[string]*Contract{}, Specs: map[string]*SpecFn{}, Defaults: map[string]string{}}
}

var clauseHead = regexp.MustCompile(`^(requires|ensures|lemma|axiom|defines)(\[[A-Z0-9, ]+\])?\s+(.*)$`)
var loopHead = regexp.MustCompile(`^loop\s+(\d+)\s+(invariant|decreases|entry)(\[[A-Z0-9, ]+\])?\s+(.*)$`)
var specHead = regexp.MustCompile(`^specfn\s+(\w+)\s*\((.*)\)\s*(\S.*)$`)

func parseProps(s string) []string {
	s = strings.Trim(s, "[]")
	var r []string
	for _, f := range strings.FieldsFunc(s, func(r rune) bool { return r == ',' || r == ' ' }) {
		r = append(r, f)
	}
	return r
}

// ParseFile reads contract lines (those starting with //@) from a file.
// pkgPath is the default package context; ext=true keys functions by full name.
func (cs *ContractSet) ParseFile(path, pkgPath string, ext bool) error {
	f, err := os.Open(path)
	if err != nil {
		return err
	}
	defer f.Close()
	cs.Files = append(cs.Files, path)
	sc := bufio.NewScanner(f)
	sc.Buffer(make([]byte, 1<<20), 1<<20)
	var cur *Contract
	var curSpec *SpecFn
	lineNo := 0
	pending := ""
	pendLine := 0
	for sc.Scan() {
		lineNo++
		line := strings.TrimSpace(sc.Text())
		if !strings.HasPrefix(line, "//@") {
			continue
		}
		line = strings.TrimSpace(line[3:])
		if line == "" || strings.HasPrefix(line, "#") {
			continue
		}
		if pending != "" {
			line = pending + " " + line
		} else {
			pendLine = lineNo
		}
		if strings.HasSuffix(line, "\\") {
			pending = strings.TrimSpace(strings.TrimSuffix(line, "\\"))
			continue
		}
		pending = ""
		ln := pendLine
		// strip trailing comment " // ..."
		if i := strings.Index(line, " //"); i >= 0 && !strings.Contains(line[i:], "\"") {
			line = strings.TrimSpace(line[:i])
		}
		switch {
		case strings.HasPrefix(line, "package "):
			pkgPath = strings.TrimSpace(line[8:])
		case strings.HasPrefix(line, "default "):
			f := strings.Fields(line)
			if len(f) != 3 {
				return fmt.Errorf("%s:%d: bad default line", path, ln)
			}
			cs.Defaults[f[1]] = f[2]
		case strings.HasPrefix(line, "site "):
			head, reason, _ := strings.Cut(line[5:], ":")
			f := strings.Fields(head)
			if len(f) != 4 || (f[3] != "proved" && f[3] != "reviewed") {
				return fmt.Errorf("%s:%d: bad site line (site <func> <kind> <count> proved|reviewed: reason)", path, ln)
			}
			n, err := strconv.Atoi(f[2])
			if err != nil {
				return fmt.Errorf("%s:%d: bad site count", path, ln)
			}
			cs.Sites = append(cs.Sites, SiteDecl{Func: f[0], Kind: f[1], Count: n, Disposition: f[3], Reason: strings.TrimSpace(reason), File: path, Line: ln})
		case strings.HasPrefix(line, "func "):
			name := strings.TrimSpace(line[5:])
			cur = &Contract{PkgPath: pkgPath, Func: name, Loops: map[int]*LoopSpec{}, File: path, Line: ln, Trusted: ext}
			curSpec = nil
			key := pkgPath + "::" + name
			if ext {
				key = "ext::" + name
			}
			if cs.ByFunc[key] != nil {
				return fmt.Errorf("%s:%d: duplicate contract for %s", path, ln, name)
			}
			cs.ByFunc[key] = cur
			cs.Order = append(cs.Order, cur)
		case specHead.MatchString(line):
			m := specHead.FindStringSubmatch(line)
			sp := &SpecFn{PkgPath: pkgPath, Name: m[1], Result: strings.TrimSpace(m[3]), File: path, Line: ln}
			for _, p := range splitTop(m[2], ',') {
				p = strings.TrimSpace(p)
				if p == "" {
					continue
				}
				i := strings.IndexByte(p, ' ')
				if i < 0 {
					return fmt.Errorf("%s:%d: bad spec param %q", path, ln, p)
				}
				sp.Params = append(sp.Params, SpecParam{p[:i], strings.TrimSpace(p[i+1:])})
			}
			if cs.Specs[sp.Name] != nil {
				return fmt.Errorf("%s:%d: duplicate specfn %s", path, ln, sp.Name)
			}
			cs.Specs[sp.Name] = sp
			curSpec = sp
			cur = nil
		case strings.HasPrefix(line, "def ") && curSpec != nil:
			curSpec.Def = strings.TrimSpace(line[4:])
		case line == "rec" && curSpec != nil:
			curSpec.Rec = true
		case line == "opaque" && curSpec != nil:
			curSpec.Opaque = true
		case strings.HasPrefix(line, "reads ") && curSpec != nil:
			curSpec.Reads = strings.Fields(line[6:])
			if line == "reads nothing" {
				curSpec.NoHeap = true
			}
		case cur == nil:
			return fmt.Errorf("%s:%d: clause outside func: %s", path, ln, line)
		case strings.HasPrefix(line, "prop "):
			cur.Props = append(cur.Props, strings.Fields(line[5:])...)
		case strings.HasPrefix(line, "uses "):
			cur.Uses = append(cur.Uses, strings.Fields(line[5:])...)
		case strings.HasPrefix(line, "params "):
			cur.Params = strings.Fields(line[7:])
		case line == "pure":
			cur.Pure = true
		case line == "readonly":
			cur.ReadOnly = true
		case line == "trusted":
			cur.Trusted = true
		case line == "noreturn":
			cur.NoReturn = true
		case line == "nosafety":
			cur.NoSafety = true
		case line == "partial":
			cur.Partial = true
			cur.NoSafety = true
		case line == "trustedframe":
			cur.TrustedFrame = true
		case strings.HasPrefix(line, "tensures "):
			cur.TEnsures = append(cur.TEnsures, Clause{Text: strings.TrimSpace(line[9:]), File: path, Line: ln})
		case line == "nilok" || line == "nopanic":
			if cur.Ghost == nil {
				cur.Ghost = map[string]string{}
			}
			cur.Ghost[line] = "1"
		case strings.HasPrefix(line, "assigns"):
			cur.HasAssign = true
			rest := strings.TrimSpace(line[7:])
			if rest != "" && rest != "nothing" {
				for _, a := range splitTop(rest, ',') {
					cur.Assigns = append(cur.Assigns, strings.TrimSpace(a))
				}
			}
		case strings.HasPrefix(line, "assertcall "), strings.HasPrefix(line, "assertcall@"):
			// "assertcall@C03,C16 callee[cond]: expr" restricts the obligation to the named properties
			var caProps []string
			if strings.HasPrefix(line, "assertcall@") {
				sp := strings.IndexByte(line, ' ')
				if sp < 0 {
					return fmt.Errorf("%s:%d: assertcall needs a callee", path, ln)
				}
				caProps = strings.Split(line[11:sp], ",")
				line = "assertcall " + line[sp+1:]
			}
			rest := strings.TrimSpace(line[11:])
			i := strings.Index(rest, ":")
			if i < 0 {
				return fmt.Errorf("%s:%d: assertcall needs ':'", path, ln)
			}
			head, expr := strings.TrimSpace(rest[:i]), strings.TrimSpace(rest[i+1:])
			// the first ':' may be inside [cond]; find the ':' after the closing bracket
			if j := strings.Index(rest, "]"); j >= 0 && strings.Index(rest, "[") < i && j > i {
				k := strings.Index(rest[j:], ":")
				head, expr = strings.TrimSpace(rest[:j+1]), strings.TrimSpace(rest[j+k+1:])
			}
			ca := CallAssert{Callee: head, Clause: Clause{Text: expr, Props: caProps, File: path, Line: ln}}
			if b := strings.Index(head, "["); b >= 0 {
				ca.Callee, ca.Cond = strings.TrimSpace(head[:b]), strings.TrimSuffix(head[b+1:], "]")
			}
			cur.CallAsserts = append(cur.CallAsserts, ca)
		case strings.HasPrefix(line, "assumecall "):
			rest := strings.TrimSpace(line[11:])
			i := strings.Index(rest, ":")
			if i < 0 {
				return fmt.Errorf("%s:%d: assumecall needs ':'", path, ln)
			}
			cur.CallAssumes = append(cur.CallAssumes, CallAssert{Callee: strings.TrimSpace(rest[:i]), Clause: Clause{Text: strings.TrimSpace(rest[i+1:]), File: path, Line: ln}})
		case strings.HasPrefix(line, "assertload "):
			rest := strings.TrimSpace(line[11:])
			i := strings.Index(rest, ":")
			if i < 0 {
				return fmt.Errorf("%s:%d: assertload needs ':'", path, ln)
			}
			cur.LoadAsserts = append(cur.LoadAsserts, CallAssert{Callee: strings.TrimSpace(rest[:i]), Clause: Clause{Text: strings.TrimSpace(rest[i+1:]), File: path, Line: ln}})
		case strings.HasPrefix(line, "ghostset "):
			rest := strings.TrimSpace(line[9:])
			j := strings.LastIndex(rest, " ")
			if j < 0 {
				return fmt.Errorf("%s:%d: bad ghostset", path, ln)
			}
			head, name := strings.TrimSpace(rest[:j]), strings.TrimSpace(rest[j+1:])
			gs := GhostSet{Callee: head, Name: name}
			if b := strings.Index(head, "["); b >= 0 {
				gs.Callee, gs.Cond = strings.TrimSpace(head[:b]), strings.TrimSuffix(head[b+1:], "]")
			}
			cur.GhostSets = append(cur.GhostSets, gs)
		case loopHead.MatchString(line):
			m := loopHead.FindStringSubmatch(line)
			k, _ := strconv.Atoi(m[1])
			ls := cur.Loops[k]
			if ls == nil {
				ls = &LoopSpec{}
				cur.Loops[k] = ls
			}
			cl := Clause{Text: m[4], Props: parseProps(m[3]), File: path, Line: ln}
			switch m[2] {
			case "invariant":
				ls.Invariants = append(ls.Invariants, cl)
			case "entry":
				ls.Entry = append(ls.Entry, cl)
			default:
				ls.Decreases = &cl
			}
		case clauseHead.MatchString(line):
			m := clauseHead.FindStringSubmatch(line)
			cl := Clause{Text: m[3], Props: parseProps(m[2]), File: path, Line: ln}
			switch m[1] {
			case "requires":
				cur.Requires = append(cur.Requires, cl)
			case "ensures":
				cur.Ensures = append(cur.Ensures, cl)
			case "lemma":
				cur.Lemmas = append(cur.Lemmas, cl)
			case "axiom":
				cur.Axioms = append(cur.Axioms, cl)
			case "defines":
				cur.Defines = append(cur.Defines, cl)
			}
		default:
			return fmt.Errorf("%s:%d: cannot parse contract line: %s", path, ln, line)
		}
	}
	// a verified function declared pure/readonly has the empty frame, and that frame is checked
	for _, c := range cs.Order {
		if (c.Pure || c.ReadOnly) && !c.Trusted && !c.HasAssign {
			c.HasAssign = true
		}
	}
	return sc.Err()
}

// splitTop splits s at sep occurrences that are outside parentheses/brackets/strings.
func splitTop(s string, sep byte) []string {
	var parts []string
	d := 0
	instr := false
	last := 0
	for i := 0; i < len(s); i++ {
		c := s[i]
		switch {
		case instr:
			if c == '\\' {
				i++
			} else if c == '"' {
				instr = false
			}
		case c == '"':
			instr = true
		case c == '(' || c == '[' || c == '{':
			d++
		case c == ')' || c == ']' || c == '}':
			d--
		case c == sep && d == 0:
			parts = append(parts, s[last:i])
			last = i + 1
		}
	}
	parts = append(parts, s[last:])
	return parts
}

// splitImplies splits "a ==> b ==> c" at top level into [a b c].
func splitImplies(s string) []string {
	var parts []string
	d := 0
	instr := false
	last := 0
	for i := 0; i < len(s); i++ {
		c := s[i]
		switch {
		case instr:
			if c == '\\' {
				i++
			} else if c == '"' {
				instr = false
			}
		case c == '"':
			instr = true
		case c == '(' || c == '[' || c == '{':
			d++
		case c == ')' || c == ']' || c == '}':
			d--
		case d == 0 && strings.HasPrefix(s[i:], "==>"):
			parts = append(parts, s[last:i])
			last = i + 3
			i += 2
		}
	}
	parts = append(parts, s[last:])
	return parts
}
