package vc

import (
	"fmt"
	"go/types"
	"os"
	"path/filepath"
	"sort"
	"strings"

	"golang.org/x/tools/go/packages"
	"golang.org/x/tools/go/ssa"
	"golang.org/x/tools/go/ssa/ssautil"
)

// Gen is the verification-condition generator for one load of the repository.
type Gen struct {
	Prog      *ssa.Program
	Pkgs      []*packages.Package
	SSAPkgs   map[string]*ssa.Package
	CS        *ContractSet
	RepoDir   string
	internal  map[string]bool
	pkgByName map[string]*types.Package
	pkgByPath map[string]*types.Package

	globalIDs      map[string]int
	abstractCalls  map[string]int
	trustedUsed    map[string]bool
	UnfoldDepth    int
	funcByObj      map[*types.Func]*ssa.Function
	initConstCache map[*ssa.Global][]*ssa.Store
	specRec        map[string]bool
}

var ContractPackages = []string{".", "./internal", "./typeutil", "./packages/cache", "./internal/target/util"}

// Load loads the repository packages (with the verif build tag), builds SSA
// and parses the contract files.
func Load(repo string, extDirs []string) (*Gen, error) {
	cfg := &packages.Config{Mode: packages.LoadAllSyntax, Dir: repo, BuildFlags: []string{"-tags=verif"},
		Env: append(os.Environ(), "GOFLAGS=-mod=mod", "GOPROXY=off", "GOSUMDB=off", "GOTOOLCHAIN=local")}
	pkgs, err := packages.Load(cfg, ContractPackages...)
	if err != nil {
		return nil, err
	}
	for _, p := range pkgs {
		if len(p.Errors) > 0 {
			return nil, fmt.Errorf("package %s: %v", p.PkgPath, p.Errors[0])
		}
	}
	prog, spkgs := ssautil.AllPackages(pkgs, ssa.InstantiateGenerics|ssa.GlobalDebug)
	prog.Build()
	g := &Gen{Prog: prog, Pkgs: pkgs, SSAPkgs: map[string]*ssa.Package{}, CS: NewContractSet(), RepoDir: repo,
		internal: map[string]bool{}, pkgByName: map[string]*types.Package{}, pkgByPath: map[string]*types.Package{},
		globalIDs: map[string]int{}, abstractCalls: map[string]int{}, trustedUsed: map[string]bool{}, UnfoldDepth: 1,
		funcByObj: map[*types.Func]*ssa.Function{}, initConstCache: map[*ssa.Global][]*ssa.Store{}}
	for i, p := range pkgs {
		g.internal[p.PkgPath] = true
		g.SSAPkgs[p.PkgPath] = spkgs[i]
	}
	packages.Visit(pkgs, nil, func(p *packages.Package) {
		if p.Types != nil {
			g.pkgByPath[p.PkgPath] = p.Types
			if _, dup := g.pkgByName[p.Types.Name()]; !dup || g.internal[p.PkgPath] {
				g.pkgByName[p.Types.Name()] = p.Types
			}
		}
	})
	// contract files of the repository
	for _, p := range pkgs {
		for _, f := range p.GoFiles {
			if filepath.Base(f) == "verif_contracts.go" {
				if err := g.CS.ParseFile(f, p.PkgPath, false); err != nil {
					return nil, err
				}
			}
		}
	}
	// trusted external contracts and spec functions
	for _, d := range extDirs {
		ents, _ := os.ReadDir(d)
		for _, e := range ents {
			path := filepath.Join(d, e.Name())
			switch {
			case strings.HasSuffix(e.Name(), ".ext"):
				if err := g.CS.ParseFile(path, "", true); err != nil {
					return nil, err
				}
			case strings.HasSuffix(e.Name(), ".spec"):
				if err := g.CS.ParseFile(path, "github.com/goplus/gogen", false); err != nil {
					return nil, err
				}
			}
		}
	}
	return g, nil
}

func (g *Gen) isInternalPkg(p *types.Package) bool {
	return p != nil && g.internal[p.Path()]
}

func (g *Gen) fnName(fn *ssa.Function) string {
	if fn.Pkg != nil {
		return fn.Pkg.Pkg.Name() + "." + fn.RelString(fn.Pkg.Pkg)
	}
	return fn.String()
}

func (g *Gen) globalID(key string) int {
	if n, ok := g.globalIDs[key]; ok {
		return n
	}
	n := len(g.globalIDs) + 1
	g.globalIDs[key] = n
	return n
}

func (g *Gen) globalOf(v *types.Var) *ssa.Global {
	if v.Pkg() == nil {
		return nil
	}
	sp := g.Prog.Package(v.Pkg())
	if sp == nil {
		return nil
	}
	if m, ok := sp.Members[v.Name()].(*ssa.Global); ok {
		return m
	}
	return nil
}

func (g *Gen) ssaFunc(f *types.Func) *ssa.Function {
	return g.Prog.FuncValue(f)
}

// defaultContract synthesises a contract for an external function from the
// per-package defaults.
func (g *Gen) defaultContract(ce *callee) *Contract {
	if !ce.external || ce.pkg == nil {
		return nil
	}
	d, ok := g.CS.Defaults[ce.pkg.Path()]
	if !ok {
		return nil
	}
	c := &Contract{Func: ce.name, Trusted: true, Loops: map[int]*LoopSpec{}, File: "default:" + ce.pkg.Path()}
	switch d {
	case "pure":
		c.Pure = true
	case "readonly":
		c.ReadOnly = true
	default:
		return nil
	}
	return c
}

// FindFunc locates the SSA function for a contract.
func (g *Gen) FindFunc(con *Contract) *ssa.Function {
	sp := g.SSAPkgs[con.PkgPath]
	if sp == nil {
		return nil
	}
	name := con.Func
	// closures: outer$1
	if fn := g.findByRel(sp, name); fn != nil {
		return fn
	}
	return nil
}

func (g *Gen) findByRel(sp *ssa.Package, name string) *ssa.Function {
	base := name
	var anon []string
	if i := strings.Index(name, "$"); i >= 0 {
		base = name[:i]
		anon = strings.Split(name[i+1:], "$")
	}
	var fn *ssa.Function
	if strings.HasPrefix(base, "(") {
		// method: (*T).M or (T).M
		j := strings.LastIndex(base, ").")
		recv := base[1:j]
		mname := base[j+2:]
		ptr := strings.HasPrefix(recv, "*")
		tname := strings.TrimPrefix(recv, "*")
		tm, ok := sp.Members[tname].(*ssa.Type)
		if !ok {
			return nil
		}
		var t types.Type = tm.Type()
		if ptr {
			t = types.NewPointer(t)
		}
		sel := g.Prog.MethodSets.MethodSet(t).Lookup(sp.Pkg, mname)
		if sel == nil {
			return nil
		}
		fn = g.Prog.MethodValue(sel)
	} else {
		fn = sp.Func(base)
	}
	for _, a := range anon {
		if fn == nil {
			return nil
		}
		var next *ssa.Function
		for _, af := range fn.AnonFuncs {
			if af.Name() == fn.Name()+"$"+a {
				next = af
			}
		}
		fn = next
	}
	return fn
}

// FuncResult is the outcome of generating and discharging one function's obligations.
type FuncResult struct {
	Func        string
	Contract    *Contract
	Obligations []*Obligation
	Notes       []string
	Outside     string // non-empty: function is outside the supported subset (reason)
	Blocks      int
	Instrs      int
	heapOrder   []string
	heapSort    map[string]string
}

// Generate produces the obligations of one function under contract.
func (g *Gen) Generate(fn *ssa.Function, con *Contract) (res *FuncResult) {
	// pass 1 collects the heap names the function touches, pass 2 runs with
	// all of them declared up front so that state merges are precise
	first := g.generate1(fn, con, nil, nil)
	if first.Outside != "" {
		return first
	}
	return g.generate1(fn, con, first.heapOrder, first.heapSort)
}

func (g *Gen) generate1(fn *ssa.Function, con *Contract, heapOrder []string, heapSort map[string]string) (res *FuncResult) {
	res = &FuncResult{Func: g.fnName(fn), Contract: con}
	fc := &fnCtx{g: g, fn: fn, con: con, sc: NewScript(), heapSort: map[string]string{}, vals: map[ssa.Value]Val{},
		ordinals: map[string]int{}, globals: map[string]string{}, implSyms: map[string]types.Type{}, pureDone: map[string]bool{},
		globalVals: map[*ssa.Global]Val{}, globalSyms: map[string]*ssa.Global{}, locals: map[string]Val{}, localIsAddr: map[string]bool{}, sliceBase: map[string]sliceBaseRec{}}
	fc.sc.Raw(prelude, preludeSyms...)
	fc.so = newSorter(fc.sc)
	for _, h := range heapOrder {
		fc.heapOrder = append(fc.heapOrder, h)
		fc.heapSort[h] = heapSort[h]
	}
	fc.preHeaps = len(heapOrder) > 0
	if con != nil {
		fc.propsAll = con.Props
	}
	res.Blocks = len(fn.Blocks)
	for _, b := range fn.Blocks {
		res.Instrs += len(b.Instrs)
	}
	defer func() {
		res.Notes = fc.notes
		res.heapOrder, res.heapSort = fc.heapOrder, fc.heapSort
		if e := recover(); e != nil {
			switch e := e.(type) {
			case unsupported:
				res.Outside = e.msg
			case error:
				res.Outside = "error: " + e.Error()
			default:
				panic(e)
			}
			res.Obligations = nil
		}
	}()
	fc.run()
	fc.finishImplements()
	res.Obligations = fc.obls
	return res
}

// Query renders the SMT-LIB script that decides an obligation.
func (o *Obligation) Query(withModel bool) string {
	var b strings.Builder
	b.WriteString(o.fc.sc.Slice(o.Reach, o.Goal))
	fmt.Fprintf(&b, "(assert %s)\n(assert (not %s))\n(check-sat)\n", o.Reach, o.Goal)
	if withModel {
		var ps []string
		body := b.String()
		for _, n := range sortedValKeys(o.fc.params) {
			v := o.fc.params[n]
			if v.T != "" && strings.Contains(body, "(declare-const "+v.T+" ") {
				ps = append(ps, v.T)
			}
		}
		if len(ps) > 0 {
			fmt.Fprintf(&b, "(get-value (%s))\n", strings.Join(ps, " "))
		}
	}
	return b.String()
}

func sortedValKeys(m map[string]Val) []string {
	var ks []string
	for k := range m {
		ks = append(ks, k)
	}
	sort.Strings(ks)
	return ks
}

// FullCoverQuery asks whether the path of a cover stays feasible under the background of all obligations.
func FullCoverQuery(o *Obligation, all []*Obligation) string {
	var terms []string
	for _, x := range all {
		terms = append(terms, x.Reach, x.Goal)
	}
	var b strings.Builder
	b.WriteString(o.fc.sc.Slice(terms...))
	fmt.Fprintf(&b, "(assert %s)\n(check-sat)\n", o.Reach)
	return b.String()
}

// BatchQuery decides several obligations of the same function at once:
// unsat means all are discharged.
func BatchQuery(obls []*Obligation) string {
	var terms []string
	var disj []string
	for _, o := range obls {
		terms = append(terms, o.Reach, o.Goal)
		disj = append(disj, And(o.Reach, Not(o.Goal)))
	}
	var b strings.Builder
	b.WriteString(obls[0].fc.sc.Slice(terms...))
	fmt.Fprintf(&b, "(assert %s)\n(check-sat)\n", Or(disj...))
	return b.String()
}

func (fc *fnCtx) heapByShortName(short string) string {
	for _, h := range fc.heapOrder {
		if trimBars(h) == short {
			return h
		}
	}
	for _, h := range fc.heapOrder {
		if strings.Contains(h, short) {
			return h
		}
	}
	bail("reads: no heap matching %s", short)
	return ""
}

// globalInit returns the initial value of an init-constant global (not implemented for all shapes).
func (fc *fnCtx) globalInit(g *ssa.Global, st *State) (Val, bool) {
	return fc.g.initValue(fc, g, st)
}

// specRecursive: recursion points are declared with "rec"; all other spec functions are macros.
func (g *Gen) specRecursive(name string) bool {
	sp := g.CS.Specs[name]
	return sp != nil && sp.Rec
}

// Loops describes the loops of a function: ordinal, header block, source position, loop-carried variables.
func (g *Gen) Loops(pkgPath, name string) []string {
	fn := g.FindFunc(&Contract{PkgPath: pkgPath, Func: name})
	if fn == nil {
		return []string{"function not found"}
	}
	fc := &fnCtx{g: g, fn: fn}
	fc.findLoops()
	var out []string
	for _, h := range fc.loopOrder {
		li := fc.loops[h]
		var vars []string
		for _, ins := range h.Instrs {
			if phi, ok := ins.(*ssa.Phi); ok {
				vars = append(vars, phi.Comment)
			}
		}
		pos := ""
		for _, ins := range h.Instrs {
			if ins.Pos().IsValid() {
				pos = g.Prog.Fset.Position(ins.Pos()).String()
				break
			}
		}
		out = append(out, fmt.Sprintf("loop %d: block %d (%s) %s vars=%v", li.ord, h.Index, h.Comment, pos, vars))
	}
	return out
}
