package vc

import (
	"encoding/json"
	"fmt"
	"io"
	"os"
	"path/filepath"
	"sort"
	"strings"
	"time"
)

// KnownFinding is an entry of /verif/known_findings.json.
type KnownFinding struct {
	ID         string   `json:"id"`
	Property   string   `json:"property"`
	Also       []string `json:"also,omitempty"`   // other properties whose checks decide the same obligation
	Obligation string   `json:"obligation"`       // obligation name (may end in * to match a prefix)
	Region     string   `json:"region,omitempty"` // contract-language predicate over the function's parameters (entry state)
	What       string   `json:"what"`
	Status     string   `json:"status,omitempty"` // "open" (default) or "fixed: ..."
	Replay     string   `json:"replay,omitempty"`
}

type CheckConfig struct {
	Property   string
	Tier       string
	Seed       int
	Repo       string
	VerifDir   string
	Timeout    time.Duration
	Out        io.Writer
	OnlySafety bool
}

type Evidence struct {
	PropertyID  string         `json:"property_id"`
	Tier        string         `json:"tier"`
	Seed        int            `json:"seed"`
	Level       string         `json:"level"`
	Coverage    map[string]any `json:"coverage"`
	Assumptions []string       `json:"assumptions"`
	WallS       float64        `json:"wall_s"`
	Violations  int            `json:"violations"`
}

func loadKnown(path string) ([]KnownFinding, error) {
	b, err := os.ReadFile(path)
	if err != nil {
		if os.IsNotExist(err) {
			return nil, nil
		}
		return nil, err
	}
	var f struct {
		Findings []KnownFinding `json:"findings"`
	}
	if err := json.Unmarshal(b, &f); err != nil {
		return nil, err
	}
	return f.Findings, nil
}

// selectContracts returns the contracts whose functions must be verified for a property.
func selectContracts(g *Gen, prop string) []*Contract {
	var sel []*Contract
	for _, c := range g.CS.Order {
		if c.PkgPath == "" || c.Trusted || strings.HasPrefix(c.Func, "type:") {
			continue // external or assumed (trusted) contracts are never verified; they are listed as assumptions
		}
		if prop == "C17" || prop == "ALL" {
			sel = append(sel, c)
			continue
		}
		for _, p := range c.Props {
			if p == prop {
				sel = append(sel, c)
				break
			}
		}
	}
	return sel
}

func hasProp(ps []string, p string) bool {
	for _, x := range ps {
		if x == p {
			return true
		}
	}
	return false
}

// RunCheck decides one property; returns the process exit code.
func RunCheck(cfg CheckConfig) int {
	t0 := time.Now()
	out := cfg.Out
	prop := cfg.Property
	fail := func(obl, why, details string) {
		rp := writeReplay(cfg, obl, why, details)
		fmt.Fprintf(out, "VIOLATION property=%s replay=%s obligation=%s no-failing-input-found\n", prop, rp, obl)
	}
	g, err := Load(cfg.Repo, []string{filepath.Join(cfg.VerifDir, "ext"), filepath.Join(cfg.VerifDir, "specs")})
	if err != nil {
		fail("load", "cannot load repository or contracts", err.Error())
		writeEvidence(cfg, &Evidence{PropertyID: prop, Tier: cfg.Tier, Seed: cfg.Seed, Level: "proof",
			Coverage: map[string]any{"obligations": 0, "discharged": 0, "checker_cmd": "govc check", "trusted_base": []string{}, "explanation": "load failed: " + err.Error()}, WallS: time.Since(t0).Seconds(), Violations: 1})
		return 1
	}
	known, err := loadKnown(filepath.Join(cfg.VerifDir, "known_findings.json"))
	if err != nil {
		fail("known_findings", "cannot read known_findings.json", err.Error())
		return 1
	}
	dir, _ := os.MkdirTemp("", "govc-"+prop)
	if k := os.Getenv("GOVC_KEEP"); k != "" {
		dir = k
		os.MkdirAll(dir, 0o755)
	} else {
		defer os.RemoveAll(dir)
	}
	run := NewRun(g, dir, cfg.Timeout, cfg.Seed)
	if prop == "C17" {
		// the sweep decides the run-time-fault obligations (and the vacuity covers) of every function under contract
		// everything a later safety obligation may rest on (invariants, callee preconditions, assertions) is decided
		// too; postconditions and frames, which nothing inside the function depends on, are left to the checks of the
		// properties that own them unless the function is under contract for C17 alone
		run.Only = func(o *Obligation) bool {
			if o.Kind != "post" && o.Kind != "assigns" {
				return true
			}
			return o.fc != nil && o.fc.con != nil && len(o.fc.con.Props) == 1 && o.fc.con.Props[0] == "C17"
		}
	}
	sel := selectContracts(g, prop)
	reports := make([]*FuncReport, len(sel))
	// functions in parallel (each function's obligations are themselves parallel)
	ParallelDo(len(sel), 4, func(i int) { reports[i] = run.VerifyContract(sel[i]) })

	violations := 0
	nObl, nDis, nCover, nCoverOK := 0, 0, 0, 0
	bySolver := map[string]int{}
	solverTime := 0.0
	var funcs []map[string]any
	samples := []map[string]any{}
	var knownSeen []string
	var notes []string
	var names []string
	seenKnown := map[string]bool{}
	var deadNames []string
	var slow []slowObl
	var expDead map[string]bool
	expDeadN := map[string]int{} // function -> number of reviewed unreachable return points
	deadFile := filepath.Join(cfg.VerifDir, "expected", prop+".dead.txt")
	if b, err := os.ReadFile(deadFile); err == nil && os.Getenv("GOVC_WRITE_EXPECTED") == "" {
		expDead = map[string]bool{}
		for _, l := range strings.Split(string(b), "\n") {
			if f := strings.Fields(l); len(f) > 0 && !strings.HasPrefix(f[0], "#") {
				expDead[strings.SplitN(f[0], "@", 2)[0]] = true
				expDeadN[strings.SplitN(f[0], "#", 2)[0]]++
			}
		}
	}
	for _, fr := range reports {
		if fr.Missing {
			violations++
			fail(fr.Func+"#missing", "contract target not found in the repository (function renamed or removed)", fr.Contract.File)
			continue
		}
		if fr.Outside != "" {
			violations++
			fail(fr.Func+"#outside-subset", "function under contract cannot be translated: "+fr.Outside, fr.Contract.File)
			continue
		}
		fo, fd := 0, 0
		var deadCovers []*OblResult
		nRet, nRetDead := 0, 0
		for _, r := range fr.Results {
			if r.Obl.Cover && strings.Contains(r.Obl.Name, "#cover.return") {
				nRet++
				if !r.OK {
					nRetDead++
				}
			}
		}
		for _, r := range fr.Results {
			o := r.Obl
			mine := len(o.Props) == 0 || hasProp(o.Props, prop) || prop == "ALL"
			if prop == "C17" {
				// the run-time-fault obligations of every function, plus the call-site assertions that belong to C17
				// (e.g. "a zero divisor was reported before the constant operands are folded")
				mine = strings.HasPrefix(o.Kind, "safe.") || o.Kind == "cover" || (strings.HasPrefix(o.Kind, "callassert") && hasProp(o.Props, "C17"))
			}
			if !mine {
				continue
			}
			solverTime += r.Verdict.Time
			if o.Cover {
				nCover++
				if r.OK {
					nCoverOK++
				} else {
					deadCovers = append(deadCovers, r)
				}
				continue
			}
			nObl++
			fo++
			if r.Verdict.Time > 1.0 && !r.Batched {
				slow = append(slow, slowObl{o.Name, r.Verdict.Solver, r.Verdict.Status, r.Verdict.Time})
			}
			names = append(names, o.Name)
			bySolver[r.Verdict.Solver]++
			if len(samples) < 6 && (len(samples) == 0 || o.Kind == "post") {
				samples = append(samples, map[string]any{"obligation": o.Name, "kind": o.Kind, "clause": o.Clause, "pos": o.Pos, "verdict": r.Verdict.Status, "solver": r.Verdict.Solver, "time_s": r.Verdict.Time, "smt_bytes": len(o.Query(false))})
			}
			if r.OK {
				nDis++
				fd++
				continue
			}
			// failed: is it covered by known findings?
			kfs := matchKnown(known, prop, o.Name)
			if len(kfs) > 0 {
				var regions []string
				whole := false
				for _, kf := range kfs {
					if kf.Region == "" {
						whole = true
					} else {
						regions = append(regions, kf.Region)
					}
				}
				ok := whole || run.dischargeOutsideRegions(o, regions)
				if ok {
					for _, kf := range kfs {
						// still failing inside this region?
						if kf.Region != "" && !run.failsInsideRegion(o, kf.Region) {
							continue
						}
						if !seenKnown[kf.ID] {
							seenKnown[kf.ID] = true
							fmt.Fprintf(out, "KNOWN-FINDING: property=%s %s [%s]\n", prop, kf.What, kf.ID)
							knownSeen = append(knownSeen, kf.ID+": "+kf.What)
						}
					}
					nDis++ // discharged outside the listed regions
					fd++
					continue
				}
			}
			violations++
			rp := writeReplay(cfg, o.Name, fmt.Sprintf("obligation not discharged (%s by %s): %s %s", r.Verdict.Status, r.Verdict.Solver, o.Pos, o.Clause), r.Verdict.Output+"\n\n; ---- query ----\n"+o.Query(true))
			fmt.Fprintf(out, "VIOLATION property=%s replay=%s obligation=%s no-failing-input-found\n", prop, rp, o.Name)
		}
		// vacuity: contradictory preconditions, or no return is reachable although the function has returns.
		// (a single infeasible return is dead code, e.g. a constant-folded branch, and is only noted)
		postFailed := false
		deadRet := map[string]bool{}
		for _, r := range fr.Results {
			if !r.Obl.Cover && !r.OK {
				postFailed = true
			}
			// only a return point the solver positively found reachable (sat) can expose contradictory exit facts; an
			// undecided one (timeout) may simply be dead code
			if r.Obl.Cover && strings.Contains(r.Obl.Name, "#cover.return.") && (!r.OK || r.Verdict.Status != "sat") {
				deadRet[strings.Replace(r.Obl.Name, "#cover.return.", "#cover.exit.", 1)] = true
			}
		}
		var dc2 []*OblResult
		for _, r := range deadCovers {
			if strings.Contains(r.Obl.Name, "#cover.exit.") {
				// an exit that is infeasible although its return point is feasible and every obligation holds:
				// the facts assumed at the return contradict each other
				if !deadRet[r.Obl.Name] && !postFailed {
					violations++
					fail(r.Obl.Name, "vacuity: the facts assumed at this return point (ghost definitions, postconditions) are contradictory", r.Verdict.Output)
				}
				continue
			}
			dc2 = append(dc2, r)
		}
		deadCovers = dc2
		for _, r := range deadCovers {
			deadNames = append(deadNames, r.Obl.Name+"@"+posLine(r.Obl.Pos))
			if strings.HasSuffix(r.Obl.Name, "#cover.requires") || (nRet > 0 && nRetDead == nRet) {
				violations++
				fail(r.Obl.Name, "vacuity: the path to this point is infeasible under the contract's assumptions (contradictory requires/ensures)", r.Verdict.Output)
			} else if expDead != nil && len(deadCovers) > expDeadN[fr.Func] {
				// every unreachable return point was reviewed when the contract was written (expected/<prop>.dead.txt):
				// a return point that becomes unreachable afterwards means the contract no longer covers that path
				violations++
				fail(r.Obl.Name, "vacuity: this return point is infeasible under the contract's assumptions and is the function has more unreachable return points than the reviewed list (expected/<prop>.dead.txt) allows", r.Verdict.Output)
			} else {
				notes = append(notes, fr.Func+": return point "+r.Obl.Name+" is unreachable (dead code or excluded by the preconditions)")
			}
		}
		funcs = append(funcs, map[string]any{"func": fr.Func, "obligations": fo, "discharged": fd, "blocks": fr.Blocks, "instrs": fr.Instrs, "wall_s": round3(fr.Wall)})
		for _, n := range fr.Notes {
			notes = append(notes, fr.Func+": "+n)
		}
	}
	// mechanical completeness obligations: every syntactic source of run-to-run variation (C15) / every write to
	// package-level state outside initialisers (C18) in the module is accounted for by a site declaration
	var siteAssumptions []string
	if prop == "C15" || prop == "C18" {
		var sites []Site
		prefix := "det."
		if prop == "C15" {
			sites = g.ScanDet()
		} else {
			sites = append(g.ScanGlobalWrites(), g.ScanNodeStores()...)
			prefix = "own."
		}
		type key struct{ fn, kind string }
		declared := map[key]*SiteDecl{}
		for i := range g.CS.Sites {
			d := &g.CS.Sites[i]
			if strings.HasPrefix(d.Kind, prefix) {
				declared[key{d.Func, d.Kind}] = d
			}
		}
		count := map[key]int{}
		first := map[key]Site{}
		for _, s := range sites {
			k := key{s.Func, s.Kind}
			if count[k] == 0 {
				first[k] = s
			}
			count[k]++
		}
		underContract := map[string]bool{}
		for _, fr := range reports {
			if !fr.Missing && fr.Outside == "" {
				underContract[fr.Func] = true
			}
		}
		var keys []key
		for k := range count {
			keys = append(keys, k)
		}
		sort.Slice(keys, func(i, j int) bool { return keys[i].fn+keys[i].kind < keys[j].fn+keys[j].kind })
		for _, k := range keys {
			name := fmt.Sprintf("%s#scan.%s", k.fn, k.kind)
			nObl++
			names = append(names, name)
			d := declared[k]
			switch {
			case d == nil || count[k] > d.Count:
				violations++
				have := 0
				if d != nil {
					have = d.Count
				}
				fail(name, fmt.Sprintf("%d site(s) of kind %s in %s (first at %s %s) but only %d accounted for by site declarations in the contract files", count[k], k.kind, k.fn, first[k].Pos, first[k].Note, have), "")
			case d.Disposition == "proved" && !underContract[k.fn]:
				violations++
				fail(name, "site declared proved but the function has no contract for this property", d.File)
			default:
				nDis++
				bySolver["scan"]++
				if len(samples) < 8 {
					samples = append(samples, map[string]any{"obligation": name, "kind": "scan", "clause": fmt.Sprintf("%d site(s), first at %s %s; accounted for (%s): %s", count[k], first[k].Pos, first[k].Note, d.Disposition, d.Reason), "verdict": "accounted", "solver": "scan"})
				}
				if d.Disposition == "reviewed" {
					siteAssumptions = append(siteAssumptions, fmt.Sprintf("%s %s x%d (reviewed, not checked by the verifier): %s", k.fn, k.kind, d.Count, d.Reason))
				} else {
					notes = append(notes, fmt.Sprintf("%s %s x%d: covered by the function's own obligations: %s", k.fn, k.kind, d.Count, d.Reason))
				}
			}
		}
		funcs = append(funcs, map[string]any{"func": "module scan (" + strings.Join(g.ModulePackagePaths(), " ") + ")", "obligations": len(keys), "discharged": len(keys), "blocks": 0, "instrs": 0, "wall_s": 0.0})
	}
	if nObl == 0 {
		violations++
		fail(prop+"#no-obligations", "vacuity: no obligations were generated for this property", "")
	}
	// expected obligation names (a contract that silently stops generating obligations is an error)
	expFile := filepath.Join(cfg.VerifDir, "expected", prop+".txt")
	if b, err := os.ReadFile(expFile); err == nil {
		have := map[string]bool{}
		for _, n := range names {
			have[n] = true
		}
		for _, n := range strings.Fields(string(b)) {
			if !have[n] {
				violations++
				fail(n, "obligation recorded for the contract set is no longer generated (function or construct changed shape)", "expected list: "+expFile)
			}
		}
	}
	if os.Getenv("GOVC_WRITE_EXPECTED") != "" {
		sort.Strings(deadNames)
		os.MkdirAll(filepath.Dir(expFile), 0o755)
		os.WriteFile(deadFile, []byte("# return points that are unreachable under the contracts (reviewed): name@source position\n"+strings.Join(deadNames, "\n")+"\n"), 0o644)
	}
	var trusted []string
	for k := range g.trustedUsed {
		trusted = append(trusted, k)
	}
	sort.Strings(trusted)
	var abstract []string
	for k, n := range g.abstractCalls {
		abstract = append(abstract, fmt.Sprintf("%s (%d call sites)", k, n))
	}
	sort.Strings(abstract)
	ev := &Evidence{PropertyID: prop, Tier: cfg.Tier, Seed: cfg.Seed, Level: "proof", WallS: round3(time.Since(t0).Seconds()), Violations: violations}
	ev.Coverage = map[string]any{
		"obligations":              nObl,
		"discharged":               nDis,
		"checker_cmd":              fmt.Sprintf("govc check -prop %s -tier %s (VC generation over go/ssa of %s; z3 5.1.0 / z3 4.8.12 / cvc5 1.0 portfolio)", prop, cfg.Tier, cfg.Repo),
		"trusted_base":             append([]string{"govc VC generator", "go/ssa lowering (x/tools v0.29.0)", "SMT solvers z3 5.1.0, z3 4.8.12, cvc5 1.0"}, trusted...),
		"functions_under_contract": funcs,
		"by_solver":                bySolver,
		"solver_time_s":            round3(solverTime),
		"samples":                  samples,
		"slowest_obligations":      slowest(slow, 8),
		"vacuity_covers":           map[string]int{"checked": nCover, "feasible": nCoverOK},
		"known_findings_seen":      knownSeen,
		"abstract_calls":           abstract,
		"engine_notes":             notes,
		"contract_files":           g.CS.Files,
	}
	ev.Assumptions = []string{
		"int/int64 arithmetic is mathematical (no overflow obligations); unsigned arithmetic wraps",
		"strings are SMT strings (bytes identified with code points)",
		"external (go/types, go/constant, strings, ...) functions obey the trusted contracts in /verif/ext; those used are listed in coverage.trusted_base",
		"method receivers are non-nil; other API well-formedness preconditions are the requires clauses of the contracts",
		"pure functions are deterministic functions of their arguments",
		"calls without contract are abstracted (heap havoc, unconstrained result): listed in coverage.abstract_calls",
	}
	ev.Assumptions = append(ev.Assumptions, siteAssumptions...)
	writeEvidence(cfg, ev)
	fmt.Fprintf(out, "property %s: %d functions, %d/%d obligations discharged, %d covers feasible of %d, %d violation(s), %.1fs\n", prop, len(funcs), nDis, nObl, nCoverOK, nCover, violations, time.Since(t0).Seconds())
	if violations > 0 {
		return 1
	}
	return 0
}

type slowObl struct {
	Name, Solver, Status string
	Time                 float64
}

func slowest(xs []slowObl, n int) []map[string]any {
	sort.Slice(xs, func(i, j int) bool { return xs[i].Time > xs[j].Time })
	var r []map[string]any
	for i, x := range xs {
		if i >= n {
			break
		}
		r = append(r, map[string]any{"obligation": x.Name, "solver": x.Solver, "verdict": x.Status, "time_s": round3(x.Time)})
	}
	return r
}

// posLine trims a source position to file:line relative to the repository.
func posLine(p string) string {
	if i := strings.LastIndex(p, "/"); i >= 0 {
		p = p[i+1:]
	}
	return p
}

func round3(x float64) float64 { return float64(int(x*1000)) / 1000 }

func matchKnown(known []KnownFinding, prop, obl string) []*KnownFinding {
	var r []*KnownFinding
	for i := range known {
		k := &known[i]
		if strings.HasPrefix(k.Status, "fixed") {
			continue
		}
		if k.Property != prop && prop != "ALL" && !hasProp(k.Also, prop) {
			continue
		}
		if k.Obligation == obl || (strings.HasSuffix(k.Obligation, "*") && strings.HasPrefix(obl, strings.TrimSuffix(k.Obligation, "*"))) {
			r = append(r, k)
		}
	}
	return r
}

// dischargeOutsideRegions re-checks an obligation under the negation of the known regions.
func (r *Run) dischargeOutsideRegions(o *Obligation, regions []string) (ok bool) {
	defer func() {
		if e := recover(); e != nil {
			ok = false
		}
	}()
	fc := o.fc
	env := fc.envAt(fc.entry, fc.entry)
	var regs []string
	for _, rg := range regions {
		regs = append(regs, env.evalBoolText(rg))
	}
	all := Or(regs...)
	q := fc.sc.Slice(o.Reach, o.Goal, all) + fmt.Sprintf("(assert %s)\n(assert (not %s))\n(assert (not %s))\n(check-sat)\n", o.Reach, all, o.Goal)
	v := Decide(q, r.Dir, fileTag(o.Name)+"#outside", r.Timeout, r.Seed)
	return v.Status == "unsat"
}

// failsInsideRegion: is there still a violation of the obligation inside the region?
func (r *Run) failsInsideRegion(o *Obligation, region string) (bad bool) {
	defer func() {
		if e := recover(); e != nil {
			bad = true
		}
	}()
	fc := o.fc
	env := fc.envAt(fc.entry, fc.entry)
	reg := env.evalBoolText(region)
	q := fc.sc.Slice(o.Reach, o.Goal, reg) + fmt.Sprintf("(assert %s)\n(assert %s)\n(assert (not %s))\n(check-sat)\n", o.Reach, reg, o.Goal)
	v := Decide(q, r.Dir, fileTag(o.Name)+"#inside", r.Timeout, r.Seed)
	return v.Status != "unsat"
}

func writeReplay(cfg CheckConfig, obl, why, details string) string {
	dir := filepath.Join(cfg.VerifDir, "replays", cfg.Property)
	if os.Getenv("GOVC_NOEVIDENCE") != "" {
		dir = filepath.Join(os.TempDir(), "govc-replays", cfg.Property)
	}
	os.MkdirAll(dir, 0o755)
	path := filepath.Join(dir, fileTag(obl)+".txt")
	text := fmt.Sprintf("property: %s\nobligation: %s\nreason: %s\nrepo: %s\n\n%s\n", cfg.Property, obl, why, cfg.Repo, details)
	os.WriteFile(path, []byte(text), 0o644)
	return path
}

func writeEvidence(cfg CheckConfig, ev *Evidence) {
	if os.Getenv("GOVC_NOEVIDENCE") != "" {
		return
	}
	dir := filepath.Join(cfg.VerifDir, "evidence")
	os.MkdirAll(dir, 0o755)
	b, _ := json.MarshalIndent(ev, "", " ")
	os.WriteFile(filepath.Join(dir, cfg.Property+".json"), append(b, '\n'), 0o644)
}

// RunReplay re-decides the single obligation named in a replay file against the current tree: the file written with
// a VIOLATION line names the obligation, the solver's verdict and the query; replaying regenerates the obligation from
// the repository as it is now and runs the solvers on it again.
func RunReplay(cfg CheckConfig, file string) int {
	out := cfg.Out
	b, err := os.ReadFile(file)
	if err != nil {
		fmt.Fprintf(out, "replay: %v\n", err)
		return 2
	}
	var obl string
	for _, l := range strings.Split(string(b), "\n") {
		if strings.HasPrefix(l, "obligation: ") {
			obl = strings.TrimSpace(strings.TrimPrefix(l, "obligation: "))
			break
		}
	}
	fnName, _, ok := strings.Cut(obl, "#")
	if !ok || strings.Contains(obl, "#scan.") || strings.HasSuffix(obl, "#missing") || strings.HasSuffix(obl, "#outside-subset") || strings.HasSuffix(obl, "#no-obligations") {
		// not a solver obligation: the whole check is the replay
		return RunCheck(cfg)
	}
	g, err := Load(cfg.Repo, []string{filepath.Join(cfg.VerifDir, "ext"), filepath.Join(cfg.VerifDir, "specs")})
	if err != nil {
		fmt.Fprintf(out, "VIOLATION property=%s replay=%s obligation=load no-failing-input-found\n", cfg.Property, file)
		return 1
	}
	dir, _ := os.MkdirTemp("", "govc-replay")
	defer os.RemoveAll(dir)
	run := NewRun(g, dir, 4*cfg.Timeout, cfg.Seed)
	run.Only = func(o *Obligation) bool { return o.Name == obl }
	for _, con := range g.CS.Order {
		if con.Trusted {
			continue
		}
		fn := g.FindFunc(con)
		if fn == nil || g.fnName(fn) != fnName {
			continue
		}
		rep := run.VerifyContract(con)
		for _, r := range rep.Results {
			if r.Obl.Name != obl {
				continue
			}
			fmt.Fprintf(out, "replay %s: %s by %s in %.2fs  %s  %s\n", obl, r.Verdict.Status, r.Verdict.Solver, r.Verdict.Time, r.Obl.Pos, r.Obl.Clause)
			if r.OK {
				fmt.Fprintf(out, "replay: the obligation is discharged on the current tree\n")
				return 0
			}
			if r.Verdict.Output != "" {
				fmt.Fprintln(out, r.Verdict.Output)
			}
			fmt.Fprintf(out, "VIOLATION property=%s replay=%s obligation=%s no-failing-input-found\n", cfg.Property, file, obl)
			return 1
		}
		fmt.Fprintf(out, "replay: obligation %s is no longer generated for %s (the function changed shape)\n", obl, fnName)
		return RunCheck(cfg)
	}
	fmt.Fprintf(out, "replay: no contract for %s; running the whole check\n", fnName)
	return RunCheck(cfg)
}
