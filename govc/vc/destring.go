package vc

import (
	"fmt"
	"strings"
)

// destring rewrites a query that uses strings only through equality into one
// over an uninterpreted sort: string literals become pairwise distinct
// constants. (The string theory of the solvers is slow in combination with
// arrays and datatypes; equality reasoning is all most obligations need.)
func destring(q string) string {
	if strings.Contains(q, "(str.") || strings.Contains(q, "str.<") || !strings.Contains(q, "String") && !strings.Contains(q, "\"") {
		return q
	}
	var b strings.Builder
	lits := map[string]string{}
	var order []string
	n := len(q)
	i := 0
	for i < n {
		c := q[i]
		switch {
		case c == '"':
			j := i + 1
			for j < n {
				if q[j] == '"' {
					if j+1 < n && q[j+1] == '"' {
						j += 2
						continue
					}
					break
				}
				j++
			}
			lit := q[i : j+1]
			name, ok := lits[lit]
			if !ok {
				name = fmt.Sprintf("strlit!%d", len(lits))
				lits[lit] = name
				order = append(order, lit)
			}
			b.WriteString(name)
			i = j + 1
		case c == '|':
			j := i + 1
			for j < n && q[j] != '|' {
				j++
			}
			b.WriteString(q[i : j+1])
			i = j + 1
		case c == ';':
			j := i
			for j < n && q[j] != '\n' {
				j++
			}
			b.WriteString(q[i:j])
			i = j
		default:
			// identifier token?
			if isSymChar(c) {
				j := i
				for j < n && isSymChar(q[j]) {
					j++
				}
				tok := q[i:j]
				if tok == "String" {
					tok = "Str!"
				}
				b.WriteString(tok)
				i = j
			} else {
				b.WriteByte(c)
				i++
			}
		}
	}
	var pre strings.Builder
	pre.WriteString("(declare-sort Str! 0)\n")
	var names []string
	for _, l := range order {
		fmt.Fprintf(&pre, "(declare-const %s Str!)\n", lits[l])
		names = append(names, lits[l])
	}
	if len(names) > 1 {
		fmt.Fprintf(&pre, "(assert (distinct %s))\n", strings.Join(names, " "))
	}
	return pre.String() + b.String()
}

func isSymChar(c byte) bool {
	return c >= 'a' && c <= 'z' || c >= 'A' && c <= 'Z' || c >= '0' && c <= '9' || strings.IndexByte("_!.$%&*+-/<=>?@^~#:", c) >= 0
}
