#!/bin/bash
# usage: tools/seedtest.sh <prop> <patch.diff> [more props...] : applies a patch to a scratch copy of /repo (working tree as is)
# and runs the named property checks on it; the copy is removed afterwards
prop="$1"; patch="$2"; shift 2
scr=$(mktemp -d /tmp/seed.XXXXXX)
rsync -a --exclude .git /repo/ "$scr/"
(cd "$scr" && git init -q . 2>/dev/null && git apply --whitespace=nowarn "$patch") || { echo "PATCH DID NOT APPLY"; rm -rf "$scr"; exit 2; }
(cd "$scr" && GOFLAGS=-mod=mod GOPROXY=off go build ./... 2>&1 | head -3)
for p in $prop "$@"; do
  GOVC_NOEVIDENCE=1 /verif/bin/govc check -prop "$p" -repo "$scr" -verif /verif | sed "s#$scr/##g" | grep -v "^KNOWN"
done
rm -rf "$scr"
