#!/bin/bash
# runs every check of MANIFEST.json in the thorough tier; prints VIOLATION / replay / summary lines
cd /verif
for p in $(python3 -c "import json;print(' '.join(c['property_id'] for c in json.load(open('MANIFEST.json'))['checks']))"); do
  VERIF_SEED=${1:-0} ./check $p --tier thorough | grep -E "^VIOLATION|^property|^replay"
done
