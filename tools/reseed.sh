#!/bin/bash
# re-applies every seeded change of /verif/seeded to a scratch copy of /repo and runs the property's quick check on it
cd /verif
for d in seeded/*; do
  id=$(basename $d); prop=${id%b}
  out=$(tools/seedtest.sh $prop /verif/$d/patch.diff 2>&1)
  if echo "$out" | grep -q "PATCH DID NOT APPLY"; then echo "$id patch-does-not-apply-to-current-tree"; continue; fi
  n=$(echo "$out" | grep -c "^VIOLATION")
  first=$(echo "$out" | grep "^VIOLATION" | head -1 | sed 's/.*obligation=//; s/ no-failing.*//')
  echo "$id violations=$n $first"
done
