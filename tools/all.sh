#!/bin/bash
# runs every check registered in MANIFEST.json (quick tier) and prints one line each; optional seed as $1
cd /verif
for p in $(python3 -c "import json;print(' '.join(c['property_id'] for c in json.load(open('MANIFEST.json'))['checks']))"); do
  VERIF_SEED=${1:-0} ./check $p | grep -E "^VIOLATION|^property" 
done
