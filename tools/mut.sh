#!/bin/bash
# usage: tools/mut.sh <prop> <file> <sed-expr> : applies a sed mutation to a scratch copy of /repo and runs the property check on it
prop="$1"; file="$2"; expr="$3"
scr=$(mktemp -d /tmp/mut.XXXXXX)
rsync -a --exclude .git /repo/ "$scr/"
sed -i "$expr" "$scr/$file"
if diff -q /repo/$file "$scr/$file" >/dev/null; then echo "MUTATION DID NOT APPLY"; rm -rf "$scr"; exit 2; fi
diff /repo/$file "$scr/$file" | head -6
(cd "$scr" && GOFLAGS=-mod=mod GOPROXY=off go build ./... 2>&1 | head -3)
cd /verif/govc && go build -o /verif/bin/govc ./cmd/govc
GOVC_NOEVIDENCE=1 /verif/bin/govc check -prop "$prop" -repo "$scr" -verif /verif | sed "s#$scr/##g" | grep -v "^KNOWN"
rm -rf "$scr"
