#!/usr/bin/env python3
# keeps MANIFEST.json's derived fields current: hook commits, engine property list
import json, subprocess
m = json.load(open('/verif/MANIFEST.json'))
out = subprocess.run(['git', '-C', '/repo', 'log', '--format=%H', '--grep=^verif:'], capture_output=True, text=True).stdout.split()
m['hooks']['source_commits'] = list(reversed(out))
m['engines'][0]['serves_properties'] = sorted({c['property_id'] for c in m['checks']})
json.dump(m, open('/verif/MANIFEST.json', 'w'), indent=1)
print(len(out), 'hook commits;', len(m['checks']), 'checks;', len(m.get('not_applicable', [])), 'not applicable')
