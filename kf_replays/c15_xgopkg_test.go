package gogen_test

// Replay for C15: the package-marker constant written by checkXGoPkg lists the XGo dependency packages of
// the exported signatures. Built repeatedly from the same operation sequence, the text must be identical.

import (
	"bytes"
	"go/constant"
	"go/token"
	"go/types"
	"testing"

	"github.com/goplus/gogen"
)

func xgoDep(path, name string) (*types.Package, types.Type) {
	p := types.NewPackage(path, name)
	p.Scope().Insert(types.NewConst(token.NoPos, p, "XGoPackage", types.Typ[types.UntypedBool], constant.MakeBool(true)))
	tn := types.NewTypeName(token.NoPos, p, "T", nil)
	named := types.NewNamed(tn, types.NewStruct(nil, nil), nil)
	p.Scope().Insert(tn)
	p.MarkComplete()
	return p, named
}

func buildC15(t *testing.T) string {
	pkg := gogen.NewPackage("", "bar", nil)
	_, t1 := xgoDep("example.com/dep/aaa", "aaa")
	_, t2 := xgoDep("example.com/dep/bbb", "bbb")
	_, t3 := xgoDep("example.com/dep/ccc", "ccc")
	params := types.NewTuple(
		types.NewParam(token.NoPos, pkg.Types, "a", t1),
		types.NewParam(token.NoPos, pkg.Types, "b", t2),
		types.NewParam(token.NoPos, pkg.Types, "c", t3))
	pkg.NewFunc(nil, "F", params, nil, false).BodyStart(pkg).End()
	var b bytes.Buffer
	if err := gogen.WriteTo(&b, pkg, ""); err != nil {
		t.Fatal(err)
	}
	return b.String()
}

func TestKFC15(t *testing.T) {
	first := buildC15(t)
	for i := 0; i < 40; i++ {
		if s := buildC15(t); s != first {
			t.Fatalf("C15 violated: identical builds differ\n--- run 0\n%s\n--- run %d\n%s", first, i+1, s)
		}
	}
	t.Logf("40 identical builds\n%s", first)
}
