package gogen_test

// Replay for C17/C04: constant remainder by zero. Go: "invalid operation: division by zero".
import (
	"go/token"
	"runtime"
	"testing"

	"github.com/goplus/gogen"
)

func c17Bin(t *testing.T, a, b int, op token.Token) (err any) {
	defer func() { err = recover() }()
	pkg := gogen.NewPackage("", "main", nil)
	cb := pkg.NewFunc(nil, "f", nil, nil, false).BodyStart(pkg)
	cb.Val(a).Val(b).BinaryOp(op)
	return nil
}

func TestKFC17RemZero(t *testing.T) {
	for _, op := range []token.Token{token.REM, token.QUO} {
		err := c17Bin(t, 1, 0, op)
		t.Logf("1 %v 0: %T %v", op, err, err)
		if _, isRT := err.(runtime.Error); isRT {
			t.Errorf("C17: 1 %v 0 ends in a run-time fault (%v) instead of a reported error", op, err)
		} else if err == nil {
			t.Errorf("C04/C01: 1 %v 0 accepted", op)
		}
	}
}
