package gogen_test

// Replays for C08 (selector resolution), run against the real code through `go test -overlay`.
// Each sub-test states what Go does (go/types.LookupFieldOrMethod on the same type graph) and what the builder does.

import (
	"go/token"
	"go/types"
	"testing"

	"github.com/goplus/gogen"
)

func c08Named(pkg *types.Package, name string, fields ...*types.Var) *types.Named {
	tn := types.NewTypeName(token.NoPos, pkg, name, nil)
	return types.NewNamed(tn, types.NewStruct(fields, nil), nil)
}

func c08Select(t *testing.T, pkg *gogen.Package, recv types.Type, sel string, ref bool) (typ types.Type, err any) {
	defer func() { err = recover() }()
	v := types.NewParam(token.NoPos, pkg.Types, "s", recv)
	fn := pkg.NewFunc(nil, "f", types.NewTuple(v), nil, false)
	cb := fn.BodyStart(pkg)
	if ref {
		cb.Val(v).MemberRef(sel)
	} else {
		cb.Val(v).MemberVal(sel, 0)
	}
	typ = cb.Get(-1).Type
	return
}

// S{A; B}, A{A1}, A1{x string}, B{x int}: Go selects B.x (depth 1, int); depth-first search finds A.A1.x (string).
func TestKFC08DeeperFieldFirst(t *testing.T) {
	pkg := gogen.NewPackage("", "main", nil)
	p := pkg.Types
	a1 := c08Named(p, "A1", types.NewField(token.NoPos, p, "x", types.Typ[types.String], false))
	a := c08Named(p, "A", types.NewField(token.NoPos, p, "A1", a1, true))
	b := c08Named(p, "B", types.NewField(token.NoPos, p, "x", types.Typ[types.Int], false))
	s := c08Named(p, "S", types.NewField(token.NoPos, p, "A", a, true), types.NewField(token.NoPos, p, "B", b, true))
	obj, _, _ := types.LookupFieldOrMethod(s, false, p, "x")
	got, err := c08Select(t, pkg, s, "x", false)
	t.Logf("go/types: %v; builder: type=%v err=%v", obj, got, err)
	if err != nil || !types.Identical(got, obj.Type()) {
		t.Errorf("C08: s.x resolved to a field of type %v, Go resolves the depth-1 field of type %v", got, obj.Type())
	}
}

// S{A; B}, A{x int}, B{x int}: Go rejects s.x as ambiguous; the builder accepts it.
func TestKFC08AmbiguousAccepted(t *testing.T) {
	pkg := gogen.NewPackage("", "main", nil)
	p := pkg.Types
	a := c08Named(p, "A", types.NewField(token.NoPos, p, "x", types.Typ[types.Int], false))
	b := c08Named(p, "B", types.NewField(token.NoPos, p, "x", types.Typ[types.Int], false))
	s := c08Named(p, "S", types.NewField(token.NoPos, p, "A", a, true), types.NewField(token.NoPos, p, "B", b, true))
	obj, _, _ := types.LookupFieldOrMethod(s, false, p, "x")
	got, err := c08Select(t, pkg, s, "x", false)
	t.Logf("go/types: %v; builder: type=%v err=%v", obj, got, err)
	if obj == nil && err == nil {
		t.Errorf("C08: ambiguous selector s.x accepted with type %v", got)
	}
}

// T (package other) {secret int}: s.secret is invisible from package main. The value side rejects it, the
// assignment-target side (MemberRef) accepts it.
func TestKFC08UnexportedRef(t *testing.T) {
	other := types.NewPackage("example.com/other", "other")
	tt := c08Named(other, "T", types.NewField(token.NoPos, other, "secret", types.Typ[types.Int], false))
	_, errVal := c08Select(t, gogen.NewPackage("", "main", nil), tt, "secret", false)
	gotRef, errRef := c08Select(t, gogen.NewPackage("", "main", nil), tt, "secret", true)
	t.Logf("value side: err=%v; assignment-target side: type=%v err=%v", errVal, gotRef, errRef)
	if errVal == nil {
		t.Errorf("C08: unexported member of another package visible on the value side")
	}
	if errRef == nil {
		t.Errorf("C08: unexported field other.T.secret accepted as an assignment target (type %v); Go: s.secret undefined (cannot refer to unexported field)", gotRef)
	}
}
