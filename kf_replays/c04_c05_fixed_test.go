package gogen_test

// Regression replays for two repaired defects (run against the real code through `go test -overlay`):
//   KF-C04-2 (00da513): constant shifts by a negative or huge count must be reported, not passed to constant.Shift
//   KF-C05-4 (8ca239a): `var x int = 1i` must be reported as an error, not end in a raw panic from constant.Compare
import (
	"go/constant"
	"go/token"
	"go/types"
	"runtime"
	"strings"
	"testing"

	"github.com/goplus/gogen"
)

func fixedTry(f func(cb *gogen.CodeBuilder, pkg *gogen.Package)) (err any) {
	defer func() { err = recover() }()
	pkg := gogen.NewPackage("", "main", nil)
	cb := pkg.NewFunc(nil, "f", nil, nil, false).BodyStart(pkg)
	f(cb, pkg)
	return nil
}

func TestKFC04ShiftCounts(t *testing.T) {
	for _, c := range []int{-1, -64, 1 << 40} {
		err := fixedTry(func(cb *gogen.CodeBuilder, pkg *gogen.Package) { cb.Val(1).Val(c).BinaryOp(token.SHL) })
		if _, isRT := err.(runtime.Error); isRT || err == nil {
			t.Errorf("1 << %d: want a reported error, got %T %v", c, err, err)
		}
	}
	if err := fixedTry(func(cb *gogen.CodeBuilder, pkg *gogen.Package) { cb.Val(1).Val(10).BinaryOp(token.SHL) }); err != nil {
		t.Errorf("1 << 10 rejected: %v", err)
	}
}

func TestKFC05ComplexToInt(t *testing.T) {
	err := fixedTry(func(cb *gogen.CodeBuilder, pkg *gogen.Package) {
		cb.NewVarStart(types.Typ[types.Int], "x").Val(constant.MakeImag(constant.MakeInt64(1))).EndInit(1)
	})
	if err == nil {
		t.Fatalf("var x int = 1i accepted")
	}
	if s, isStr := err.(string); isStr && strings.Contains(s, "invalid comparison") {
		t.Fatalf("var x int = 1i ends in the raw panic %q", s)
	}
	if _, isRT := err.(runtime.Error); isRT {
		t.Fatalf("var x int = 1i ends in a run-time fault: %v", err)
	}
	t.Logf("reported: %v", err)
}
