package gogen

// Regression replay for KF-C05-10 (fixed): == between two operands of the same slice / map / func type must be rejected;
// pointers, channels and interfaces of the same type stay comparable.
import (
	"go/types"
	"testing"
)

func TestKFC05Incomparable(t *testing.T) {
	pkg := NewPackage("", "main", nil)
	el := func(typ types.Type) *Element { return &Element{Type: typ} }
	sl := types.NewSlice(types.Typ[types.Int])
	mp := types.NewMap(types.Typ[types.String], types.Typ[types.Int])
	fn := types.NewSignatureType(nil, nil, nil, nil, nil, false)
	for _, typ := range []types.Type{sl, mp, fn} {
		if ComparableTo(pkg, el(typ), el(typ)) {
			t.Errorf("a == b accepted for two operands of type %v", typ)
		}
	}
	pt := types.NewPointer(types.Typ[types.Int])
	ch := types.NewChan(types.SendRecv, types.Typ[types.Int])
	for _, typ := range []types.Type{pt, ch, types.NewInterfaceType(nil, nil)} {
		if !ComparableTo(pkg, el(typ), el(typ)) {
			t.Errorf("a == b rejected for two operands of type %v", typ)
		}
	}
}
