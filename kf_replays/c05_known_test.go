package gogen

// Replays of the C05 known findings against the real code (run through
// `go test -overlay`, nothing is written to /repo). Each sub-test FAILS while
// the finding is present (it asserts Go's verdict).

import (
	"go/constant"
	"go/token"
	"go/types"
	"testing"
)

func kfPkg() *Package { return NewPackage("", "kf", &Config{Fset: token.NewFileSet()}) }

func kfElem(t types.Type, c constant.Value) *Element { return &Element{Type: t, CVal: c} }

func TestKFC05(t *testing.T) {
	pkg := kfPkg()
	ut := func(k types.BasicKind) types.Type { return types.Typ[k] }
	t.Run("KF-C05-1 float overflow accepted", func(t *testing.T) {
		huge := constant.MakeFromLiteral("1e100", token.FLOAT, 0)
		if AssignableConv(pkg, ut(types.UntypedFloat), ut(types.Float32), kfElem(ut(types.UntypedFloat), huge)) {
			t.Fatal("1e100 accepted for float32")
		}
	})
	t.Run("KF-C05-2 complex with zero imaginary part rejected", func(t *testing.T) {
		c := constant.ToComplex(constant.MakeInt64(1))
		if !AssignableConv(pkg, ut(types.UntypedComplex), ut(types.Float64), kfElem(ut(types.UntypedComplex), c)) {
			t.Fatal("1+0i rejected for float64")
		}
	})
	t.Run("KF-C05-3 non-constant shift to float accepted", func(t *testing.T) {
		if AssignableConv(pkg, ut(types.UntypedInt), ut(types.Float64), kfElem(ut(types.UntypedInt), nil)) {
			t.Fatal("non-constant untyped int accepted for float64")
		}
	})
	t.Run("KF-C05-5 comparison with unrepresentable constant accepted", func(t *testing.T) {
		c := constant.MakeInt64(300)
		if ComparableTo(pkg, kfElem(ut(types.UntypedInt), c), kfElem(ut(types.Int8), nil)) {
			t.Fatal("x int8 == 300 accepted")
		}
	})
	t.Run("KF-C05-6 complex zero-imag vs float rejected", func(t *testing.T) {
		c := constant.ToComplex(constant.MakeInt64(1))
		if !ComparableTo(pkg, kfElem(ut(types.UntypedComplex), c), kfElem(ut(types.Float64), nil)) {
			t.Fatal("x float64 == 1+0i rejected")
		}
	})
	t.Run("KF-C05-7 asymmetry 0.5 != 1", func(t *testing.T) {
		half := constant.MakeFromLiteral("0.5", token.FLOAT, 0)
		one := constant.MakeInt64(1)
		a := ComparableTo(pkg, kfElem(ut(types.UntypedFloat), half), kfElem(ut(types.UntypedInt), one))
		b := ComparableTo(pkg, kfElem(ut(types.UntypedInt), one), kfElem(ut(types.UntypedFloat), half))
		if a != b || !a {
			t.Fatalf("0.5 vs 1: %v, 1 vs 0.5: %v", a, b)
		}
	})
	t.Run("KF-C05-8 non-constant shift vs float accepted", func(t *testing.T) {
		if ComparableTo(pkg, kfElem(ut(types.UntypedInt), nil), kfElem(ut(types.Float64), nil)) {
			t.Fatal("(1<<s) == f accepted")
		}
	})
	t.Run("KF-C05-9 complex vs untyped int rejected", func(t *testing.T) {
		i := constant.MakeImag(constant.MakeInt64(1))
		if !ComparableTo(pkg, kfElem(ut(types.UntypedComplex), i), kfElem(ut(types.UntypedInt), constant.MakeInt64(1))) {
			t.Fatal("1i == 1 rejected")
		}
	})
}
