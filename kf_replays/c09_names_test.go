package gogen_test

// Replays for C09: declared names that are not reserved in the package name table, so an import referenced in
// their scope keeps the colliding name. Each program must type-check after being written.
import (
	"bytes"
	"go/ast"
	goimporter "go/importer"
	"go/parser"
	"go/token"
	"go/types"
	"testing"

	"github.com/goplus/gogen"
)

func c09Check(t *testing.T, what string, build func(pkg *gogen.Package, fmtPkg gogen.PkgRef, cb *gogen.CodeBuilder)) {
	pkg := gogen.NewPackage("", "main", nil)
	fmtPkg := pkg.Import("fmt")
	cb := pkg.NewFunc(nil, "main", nil, nil, false).BodyStart(pkg)
	build(pkg, fmtPkg, cb)
	cb.End()
	var b bytes.Buffer
	if err := gogen.WriteTo(&b, pkg, ""); err != nil {
		t.Fatal(err)
	}
	fset := token.NewFileSet()
	f, err := parser.ParseFile(fset, "out.go", b.Bytes(), 0)
	if err != nil {
		t.Fatalf("%s: emitted file does not parse: %v\n%s", what, err, b.String())
	}
	conf := types.Config{Importer: goimporter.Default()}
	if _, err := conf.Check("main", fset, []*ast.File{f}, nil); err != nil {
		t.Errorf("%s: emitted file does not type-check: %v\n%s", what, err, b.String())
	}
}

// var fmt int (no initialiser) ... fmt.Println(fmt)
func TestKFC09VarWithoutInit(t *testing.T) {
	c09Check(t, "var without initialiser", func(pkg *gogen.Package, fmtPkg gogen.PkgRef, cb *gogen.CodeBuilder) {
		cb.NewVar(types.Typ[types.Int], "fmt")
		v := cb.Scope().Lookup("fmt")
		cb.Val(fmtPkg.Ref("Println")).Val(v).Call(1).EndStmt()
	})
}

// for fmt := range xs { fmt.Println(fmt) }
func TestKFC09RangeDefine(t *testing.T) {
	c09Check(t, "range define", func(pkg *gogen.Package, fmtPkg gogen.PkgRef, cb *gogen.CodeBuilder) {
		cb.NewVar(types.NewSlice(types.Typ[types.Int]), "xs")
		xs := cb.Scope().Lookup("xs")
		cb.ForRange("fmt").Val(xs).RangeAssignThen(token.NoPos)
		v := cb.Scope().Lookup("fmt")
		cb.Val(fmtPkg.Ref("Println")).Val(v).Call(1).EndStmt().End()
	})
}

// switch fmt := v.(type) { case int: fmt.Println(fmt) }
func TestKFC09TypeSwitchSymbol(t *testing.T) {
	c09Check(t, "type switch symbol", func(pkg *gogen.Package, fmtPkg gogen.PkgRef, cb *gogen.CodeBuilder) {
		cb.NewVar(types.NewInterfaceType(nil, nil), "v")
		v := cb.Scope().Lookup("v")
		cb.TypeSwitch("fmt").Val(v).TypeAssertThen().
			TypeCase().Typ(types.Typ[types.Int]).Then()
		sym := cb.Scope().Lookup("fmt")
		cb.Val(fmtPkg.Ref("Println")).Val(sym).Call(1).EndStmt().End().End()
	})
}

// const ( fmt = iota ) ... fmt.Println(fmt)
func TestKFC09ConstGroup(t *testing.T) {
	c09Check(t, "const group", func(pkg *gogen.Package, fmtPkg gogen.PkgRef, cb *gogen.CodeBuilder) {
		defs := pkg.NewConstDefs(cb.Scope())
		defs.New(func(cb *gogen.CodeBuilder) int { cb.Val(7); return 1 }, 0, token.NoPos, nil, "first")
		defs.Next(1, token.NoPos, "fmt")
		c := cb.Scope().Lookup("fmt")
		cb.Val(fmtPkg.Ref("Println")).Val(c).Call(1).EndStmt()
	})
}

// func f(fmt int) { fmt.Println(fmt) }
func TestKFC09ParamName(t *testing.T) {
	pkg := gogen.NewPackage("", "main", nil)
	fmtPkg := pkg.Import("fmt")
	param := types.NewParam(token.NoPos, pkg.Types, "fmt", types.Typ[types.Int])
	cb := pkg.NewFunc(nil, "f", types.NewTuple(param), nil, false).BodyStart(pkg)
	cb.Val(fmtPkg.Ref("Println")).Val(param).Call(1).EndStmt().End()
	var b bytes.Buffer
	if err := gogen.WriteTo(&b, pkg, ""); err != nil {
		t.Fatal(err)
	}
	fset := token.NewFileSet()
	f, err := parser.ParseFile(fset, "out.go", b.Bytes(), 0)
	if err != nil {
		t.Fatalf("emitted file does not parse: %v\n%s", err, b.String())
	}
	conf := types.Config{Importer: goimporter.Default()}
	if _, err := conf.Check("main", fset, []*ast.File{f}, nil); err != nil {
		t.Errorf("parameter name: emitted file does not type-check: %v\n%s", err, b.String())
	}
}
