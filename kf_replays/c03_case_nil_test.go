package gogen_test

// Regression replay for KF-C03-1: in `switch t := v.(type) { case nil: }` the symbol t has the type of v
// (Go spec "Type switches"), not `untyped nil`.
import (
	"go/types"
	"testing"

	"github.com/goplus/gogen"
)

func TestKFC03CaseNil(t *testing.T) {
	pkg := gogen.NewPackage("", "main", nil)
	cb := pkg.NewFunc(nil, "main", nil, nil, false).BodyStart(pkg)
	iface := types.NewInterfaceType(nil, nil)
	cb.NewVar(iface, "v")
	v := cb.Scope().Lookup("v")
	cb.TypeSwitch("t").Val(v).TypeAssertThen().
		TypeCase().Val(nil).Then()
	sym := cb.Scope().Lookup("t")
	if sym == nil {
		t.Fatal("symbol t not declared in the clause")
	}
	if !types.Identical(sym.Type(), iface) {
		t.Errorf("case nil: t has type %v, Go: %v", sym.Type(), iface)
	}
}

// Regression replay for KF-C03-2: "abc"[1:2] is a non-constant value of type string (Go spec "Slice expressions").
func TestKFC03SliceUntypedString(t *testing.T) {
	pkg := gogen.NewPackage("", "main", nil)
	cb := pkg.NewFunc(nil, "main", nil, nil, false).BodyStart(pkg)
	cb.Val("abc").Val(1).Val(2).Slice(false)
	e := cb.Get(-1)
	if e.Type != types.Typ[types.String] {
		t.Errorf(`"abc"[1:2] has type %v, Go: string`, e.Type)
	}
	if e.CVal != nil {
		t.Errorf(`"abc"[1:2] carries a constant value %v; Go: not a constant`, e.CVal)
	}
}
