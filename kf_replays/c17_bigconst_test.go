package gogen_test

// Regression replay for KF-C17-2: constant expressions whose intermediate value exceeds int64, in a package without
// big-number types configured: (1 << 100) % 7 and (1 << 100) >> 98 are valid Go constants (2 and 4).
import (
	"go/constant"
	"go/token"
	"runtime"
	"testing"

	"github.com/goplus/gogen"
)

func TestKFC17BigUntypedConst(t *testing.T) {
	for _, c := range []struct {
		op   token.Token
		rhs  int
		want int64
	}{{token.REM, 7, 2}, {token.SHR, 98, 4}} {
		var got constant.Value
		err := func() (err any) {
			defer func() { err = recover() }()
			pkg := gogen.NewPackage("", "main", nil)
			cb := pkg.NewFunc(nil, "f", nil, nil, false).BodyStart(pkg)
			cb.Val(1).Val(100).BinaryOp(token.SHL).Val(c.rhs).BinaryOp(c.op)
			got = cb.Get(-1).CVal
			return nil
		}()
		if _, isRT := err.(runtime.Error); isRT {
			t.Errorf("(1 << 100) %v %d ends in a run-time fault: %v", c.op, c.rhs, err)
			continue
		}
		if err != nil {
			t.Errorf("(1 << 100) %v %d rejected: %v", c.op, c.rhs, err)
			continue
		}
		if v, ok := constant.Int64Val(constant.ToInt(got)); !ok || v != c.want {
			t.Errorf("(1 << 100) %v %d = %v, want %d", c.op, c.rhs, got, c.want)
		}
	}
}
